"""Writes seeded/SUMMARY.md from the meta.json files (what each independently written change does,
what it needs in order to manifest, and which oracle of which check reported it)."""
import glob
import json
import os
import re

HERE = os.path.dirname(os.path.abspath(__file__))
VERIF = os.path.dirname(HERE)


def main():
    rows = []
    for d in sorted(glob.glob(os.path.join(VERIF, "seeded", "*", "meta.json"))):
        m = json.load(open(d))
        name = os.path.basename(os.path.dirname(d))
        ev = m.get("evaluation", {})
        checks = ev.get("checks", {})
        caught = []
        for prop, c in checks.items():
            if c.get("status") == "CAUGHT":
                mo = re.search(r"oracle=(\S+)", c.get("first", ""))
                idx = re.search(r"index=(\d+)", c.get("first", ""))
                caught.append("%s `%s` (run #%s)" % (prop, mo.group(1) if mo else "?", idx.group(1) if idx else "?"))
            else:
                caught.append("%s: %s" % (prop, c.get("status")))
        for prop, c in (m.get("also_checked") or {}).items():
            caught.append("%s: %s" % (prop, c))
        rows.append((name, m.get("property"), (m.get("title") or "").replace("|", "/"), (m.get("needs") or "").replace("|", "/").replace("\n", " ")[:260], ev.get("suite", "?"), ev.get("demo_unpatched_rc"), ev.get("demo_patched_rc"), "; ".join(caught) or "not evaluated", m.get("triage", "")))
    out = ["# Independently written breaking changes (`seeded/<id>/`)", "", "Each was written by a fresh sub-agent that saw only the property text and a scratch worktree; each was", "re-verified here (`selftest/seeded.py`): applies, repository suite green, demo passes on the unchanged tree and", "fails with the change; then the quick check of the property ran against the changed tree.", "", "| id | change | needs | suite | demo orig/changed | reported by |", "|---|---|---|---|---|---|"]
    n_caught = 0
    for name, prop, title, needs, suite, d0, d1, caught, triage in rows:
        if "`" in caught:
            n_caught += 1
        out.append("| %s | %s | %s | %s | %s / %s | %s%s |" % (name, title, needs, suite.replace("pass (", "").replace(")", "")[:14], d0, d1, caught, (" — " + triage) if triage else ""))
    out += ["", "%d changes, %d reported by the check of their own property." % (len(rows), n_caught), ""]
    with open(os.path.join(VERIF, "seeded", "SUMMARY.md"), "w") as f:
        f.write("\n".join(out))
    print("\n".join(out[-3:]))


if __name__ == "__main__":
    main()
