"""
Determinism self-test.

1. in-process: every seed is executed twice by generation and once more by replaying its recorded
   op list; the three event-log digests (ops + outcome fingerprints + oracle verdicts) must agree.
2. cross-process: the whole batch is re-run in fresh interpreters under other PYTHONHASHSEED
   values and with another worker count; the digest files must be identical.

usage: determinism.py <PROP> [n_seeds] [tier]
"""
import json
import os
import subprocess
import sys
import tempfile

HERE = os.path.dirname(os.path.abspath(__file__))
VERIF = os.path.dirname(HERE)
sys.path.insert(0, VERIF)


def batch(prop, n, tier, hashseed, workers, out):
    env = {k: v for k, v in os.environ.items() if k not in ("BARRIL_VERIF_BOOTED", "PYTHONPYCACHEPREFIX", "BARRIL_VERIF_PYC")}
    env["PYTHONHASHSEED"] = str(hashseed)
    cmd = [sys.executable, os.path.join(VERIF, "sim", "main.py"), prop, "--tier", tier, "--runs", str(n), "--workers", str(workers), "--no-evidence", "--no-shrink", "--digests-out", out, "--budget", "3000"]
    p = subprocess.run(cmd, env=env, stdout=subprocess.PIPE, stderr=subprocess.STDOUT, text=True)
    return p.returncode, p.stdout


def inproc(prop, n, tier):
    from sim import boot

    boot.import_barril()
    from sim import runner
    from sim.main import derive_seed, load_profile

    profile = load_profile(prop)
    bad = 0
    for i in range(n):
        seed = derive_seed(0, prop, tier, i)
        a = runner._drive(runner.child_full, (profile, seed, tier, [], None))
        b = runner._drive(runner.child_full, (profile, seed, tier, [], None))
        c = runner._drive(runner.child_replay, (profile, a["cfg"], a["ops"], [], False, None))
        if not (a["digest"] == b["digest"] == c["digest"]):
            bad += 1
            print("DIVERGENCE seed index %d: gen %s gen %s replay %s" % (i, a["digest"][:12], b["digest"][:12], c["digest"][:12]))
            for x, y in zip(a["log"], c["log"]):
                if x != y:
                    print("   first differing log entry:", x, "vs", y)
                    break
            else:
                print("   logs equal in common prefix; lengths", len(a["log"]), len(c["log"]), "ops", len(a["ops"]), len(c["ops"]))
    return bad


def main():
    prop = sys.argv[1]
    n = int(sys.argv[2]) if len(sys.argv) > 2 else 200
    tier = sys.argv[3] if len(sys.argv) > 3 else "quick"
    if os.environ.get("DET_INPROC") == "1":
        bad = inproc(prop, min(n, 150), tier)
        print("in-process: %d divergences" % bad)
        sys.exit(1 if bad else 0)
    env = dict(os.environ)
    env["DET_INPROC"] = "1"
    env.setdefault("PYTHONHASHSEED", "0")
    rc = subprocess.call([sys.executable, os.path.abspath(__file__), prop, str(n), tier], env=env)
    if rc:
        sys.exit(1)
    files = []
    with tempfile.TemporaryDirectory(dir="/dev/shm") as d:
        for hs, w in ((0, 16), (1, 16), (12345, 3), (0, 5)):
            out = os.path.join(d, "d-%s-%s.json" % (hs, w))
            rc, text = batch(prop, n, tier, hs, w, out)
            if not os.path.exists(out):
                print(text[-3000:])
                print("batch failed rc=%s" % rc)
                sys.exit(2)
            files.append((hs, w, json.load(open(out)), rc))
        ref = files[0][2]
        ok = True
        for hs, w, dg, rc in files[1:]:
            diff = [k for k in ref if dg.get(k) != ref[k]] + [k for k in dg if k not in ref]
            print("PYTHONHASHSEED=%s workers=%s: %d runs, %d digests differ from reference, rc=%s" % (hs, w, len(dg), len(diff), rc))
            if diff:
                ok = False
                print("   e.g. indices", diff[:10])
        print("cross-process determinism:", "OK" if ok else "FAILED", "(%d runs x %d configurations)" % (len(ref), len(files)))
        sys.exit(0 if ok else 1)


if __name__ == "__main__":
    main()
