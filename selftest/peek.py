"""Developer tool: print the history of one generated run (not part of any check)."""
import json
import os
import sys
from collections import Counter

sys.path.insert(0, os.path.dirname(os.path.dirname(os.path.abspath(__file__))))
from sim import boot

boot.reexec_if_needed()
boot.import_barril()
import warnings

warnings.simplefilter("ignore")
from sim import runner
from sim.main import derive_seed, load_profile

prop = sys.argv[1]
n = int(sys.argv[2]) if len(sys.argv) > 2 else 20
tier = sys.argv[3] if len(sys.argv) > 3 else "quick"
verbose = len(sys.argv) > 4
profile = load_profile(prop)
c = Counter()
exc = Counter()
for i in range(n):
    seed = derive_seed(0, prop, tier, i)
    res = runner.execute_seed(profile, seed, tier, [])
    for o, e in zip(res["ops"], res["log"]):
        c[(o["k"], e[3])] += 1
        if e[3] == "exc":
            exc[(o["k"], e[4][1])] += 1
        if verbose:
            print(i, o["i"], o.get("c"), o["k"], o.get("f"), e[3], json.dumps(e[4])[:100])
    if res["violations"]:
        print("VIOL", i, res["violations"][0])
print("---- outcomes")
for k, v in sorted(c.items()):
    print(v, k)
print("---- exceptions")
for k, v in sorted(exc.items()):
    print(v, k)
