"""
Sensitivity self-test: apply one mutant at a time to a scratch copy of /repo/src (in /dev/shm,
removed immediately), point the check at it with BARRIL_VERIF_SRC and expect a VIOLATION.

usage: mutants.py [PROP ...] [--only NAME] [--runs N] [--suite]   (--suite: also run the repo's tests on the mutant)
"""
import json
import os
import shutil
import subprocess
import sys
import tempfile
import time

HERE = os.path.dirname(os.path.abspath(__file__))
VERIF = os.path.dirname(HERE)

# (property, name, file, old, new)
M = []


def mut(prop, name, file, old, new):
    M.append((prop, name, file, old, new))


UD = "barril/units/unit_database.py"
QT = "barril/units/_quantity.py"
AR = "barril/units/_array.py"
FA = "barril/units/_fixedarray.py"
SC = "barril/units/_scalar.py"
FS = "barril/units/_fraction_scalar.py"
AV = "barril/units/_abstractvaluewithquantity.py"
CU = "barril/curve/curve.py"
USM = "barril/units/unit_system_manager.py"
US = "barril/units/unit_system.py"

# ---------------------------------------------------------------------------------------- C05
mut("C05", "compare_only_set_sizes", UD, "            if composing_units1 != composing_units2:\n", "            if len(composing_units1) != len(composing_units2):\n")
mut("C05", "scalar_lt_guard_removed", SC, "        if self.quantity_type != other.quantity_type:\n            msg = \"can not compare scalars of different quantity types: %r != %r\"\n            raise TypeError(msg % (self.quantity_type, other.quantity_type))\n\n        v1 = self._value\n        v2 = other.GetValue(self.unit)", "        v1 = self._value\n        v2 = other.GetValue(self.unit) if self.quantity_type == other.quantity_type else other.value")
mut("C05", "check_category_unit_memo_true_on_failure", UD, "            except UnitsError:\n                valid = False\n\n            self._category_unit_valid[key] = valid\n            if not valid:", "            except UnitsError:\n                valid = False\n\n            self._category_unit_valid[key] = True\n            if not valid:")
mut("C05", "same_quantity_op_without_deepcopy", UD, "            category_to_unit_and_exp1 = copy.deepcopy(quantity1.GetCategoryToUnitAndExps())\n            category_to_unit_and_exp2 = copy.deepcopy(quantity2.GetCategoryToUnitAndExps())", "            category_to_unit_and_exp1 = quantity1.GetCategoryToUnitAndExps()\n            category_to_unit_and_exp2 = quantity2.GetCategoryToUnitAndExps()")
mut("C05", "getinfo_falls_back_to_first_unit", UD, "                raise InvalidUnitError(\n                    unit, quantity_type, valid_units=sorted([info.unit for info in quantity_types])\n                )", "                return quantity_types[0]")
mut("C05", "convert_list_skips_target_check", UD, "        this = self.GetInfo(quantity_type, from_unit, fix_unknown=True)\n        other = self.GetInfo(quantity_type, to_unit, fix_unknown=True)\n\n        if isinstance(value, (float, int)):", "        this = self.GetInfo(quantity_type, from_unit, fix_unknown=True)\n        if isinstance(value, (float, int)):\n            other = self.GetInfo(quantity_type, to_unit, fix_unknown=True)\n        else:\n            other = self.unit_to_unit_info.get(to_unit) or self.GetInfo(quantity_type, to_unit)\n\n        if isinstance(value, (float, int)):")
mut("C05", "fraction_lt_guard_removed", FS, "        if self.quantity_type != other.quantity_type:\n            msg = \"can not compare scalars of different quantity types: %r != %r\"\n            raise TypeError(msg % self.quantity_type, other.quantity_type)\n", "        if self.quantity_type != other.quantity_type:\n            return float(self._value) < float(other.value)\n")

# ---------------------------------------------------------------------------------------- C07
mut("C07", "copy_without_slice", QT, "        return OrderedDict(\n            (category, unit_and_exp[:]) for (category, unit_and_exp) in unit_and_exps.items()\n        )", "        return OrderedDict(\n            (category, unit_and_exp) for (category, unit_and_exp) in unit_and_exps.items()\n        )")
mut("C07", "same_quantity_op_without_deepcopy", UD, "            category_to_unit_and_exp1 = copy.deepcopy(quantity1.GetCategoryToUnitAndExps())\n            category_to_unit_and_exp2 = copy.deepcopy(quantity2.GetCategoryToUnitAndExps())", "            category_to_unit_and_exp1 = quantity1.GetCategoryToUnitAndExps()\n            category_to_unit_and_exp2 = quantity2.GetCategoryToUnitAndExps()")
mut("C07", "reduce_drops_caption", QT, "        if self._unknown_unit_caption:\n            lst.append(self._unknown_unit_caption)\n        else:\n            lst.append(None)", "        lst.append(None)")
mut("C07", "intern_key_without_caption", QT, "    key = (category, unit, unknown_unit_caption)  # type:ignore[assignment]\n    try:\n        return quantities_cache[key]", "    key = (category, unit)  # type:ignore[assignment]\n    try:\n        return quantities_cache[key]")
mut("C07", "eq_ignores_caption", QT, "            == tuple(other._category_to_unit_and_exps.items())\n            and self._unknown_unit_caption == other._unknown_unit_caption\n        )", "            == tuple(other._category_to_unit_and_exps.items())\n        )")
mut("C07", "deepcopy_builds_new_instance", QT, "    def __deepcopy__(self, *args: object, **kwargs: object) -> \"Quantity\":\n        \"\"\"\n        As we're now immutable, always return itself.\n        \"\"\"\n        return self", "    def __deepcopy__(self, *args: object, **kwargs: object) -> \"Quantity\":\n        if self._is_derived:\n            return Quantity(self.GetCategoryToUnitAndExpsCopy(), None, self._unknown_unit_caption or None)\n        return Quantity(self._category, self._unit, self._unknown_unit_caption or None)")
mut("C07", "simple_key_not_stored", QT, "    else:\n        quantities_cache[key] = quantity = Quantity(category, unit, unknown_unit_caption)\n        return quantity", "    else:\n        quantity = Quantity(category, unit, unknown_unit_caption)\n        return quantity")
# (the former mutant "create_derived_shares_callers_lists" - _CreateDerived without `[:]` - became
# EQUIVALENT with fix 1876ea2: Quantity.__init__ now always stores its own [unit, exp] lists.  Its
# observable successor removes that copy in __init__ instead; the seeded change C13-d1 is the
# two-site version.)
mut("C07", "quantity_init_adopts_callers_lists", QT, """            self._category_to_unit_and_exps = OrderedDict(
                (composing_category, list(unit_and_exp))
                for (composing_category, unit_and_exp) in category.items()
            )""", """            self._category_to_unit_and_exps = category""")
mut("C07", "setter_silently_accepts", QT, "    def SetUnknownCaption(self, caption: str) -> NoReturn:\n        raise ReadOnlyError(\"Quantity is now read-only.\")", "    def SetUnknownCaption(self, caption: str) -> None:\n        if self._quantity_type == 'Unknown':\n            self._unknown_unit_caption = caption\n            return\n        raise ReadOnlyError(\"Quantity is now read-only.\")")
mut("C07", "eq_order_insensitive", QT, "            tuple(self._category_to_unit_and_exps.items())\n            == tuple(other._category_to_unit_and_exps.items())", "            dict(self._category_to_unit_and_exps.items())\n            == dict(other._category_to_unit_and_exps.items())")
mut("C07", "cache_stored_before_init", QT, "        try:\n            return quantities_cache[key_with_resolved_category]\n        except KeyError:\n            quantity = quantities_cache[key_with_resolved_category] = Quantity(\n                category, unit, unknown_unit_caption\n            )", "        try:\n            return quantities_cache[key_with_resolved_category]\n        except KeyError:\n            quantity = quantities_cache[key_with_resolved_category] = Quantity.__new__(Quantity, category, unit)\n            quantity.__init__(category, unit, unknown_unit_caption)")
mut("C07", "match_quantities_rewrites_shared_unit", UD, "        category_to_unit_and_exp1 = quantity1.GetCategoryToUnitAndExpsCopy()\n        category_to_unit_and_exp2 = quantity2.GetCategoryToUnitAndExpsCopy()", "        category_to_unit_and_exp1 = quantity1.GetCategoryToUnitAndExpsCopy()\n        category_to_unit_and_exp2 = dict(quantity2.GetCategoryToUnitAndExps())\n")

# ---------------------------------------------------------------------------------------- C11
mut("C11", "skip_checkvalues_when_dimension_passed", FA, "        if values is None:\n            values = [0.0] * dimension\n        self.CheckValues(values, dimension)", "        if values is None:\n            values = [0.0] * dimension\n        if not _dimension_given:\n            self.CheckValues(values, dimension)")
mut("C11", "dimension_lt_1", FA, "        if dimension < 2:\n            raise ValueError(\"Dimension MUST be 2 or more\")\n        self._dimension = dimension\n\n        if values is None:", "        if dimension < 1:\n            raise ValueError(\"Dimension MUST be 2 or more\")\n        self._dimension = dimension\n\n        if values is None:")
mut("C11", "changing_index_unconverted_value", FA, "        values[index] = scalar.GetValue(quantity.GetUnit())", "        values[index] = scalar.GetValue()")
mut("C11", "changing_index_in_place", FA, "        values = list(self.GetValues(quantity.GetUnit()))\n        values[index] = scalar.GetValue(quantity.GetUnit())\n        return FixedArray(self.dimension, quantity, tuple(values))", "        values = self.GetValues(quantity.GetUnit())\n        if not isinstance(values, list):\n            values = list(values)\n        values[index] = scalar.GetValue(quantity.GetUnit())\n        return FixedArray(self.dimension, quantity, tuple(values))")
mut("C11", "curve_setimage_assign_before_check", CU, "        self._CheckImageAndDomainLength(image, self._domain)\n        self._image = image", "        self._image = image\n        self._CheckImageAndDomainLength(image, self._domain)")
mut("C11", "curve_setdomain_no_check", CU, "        self._CheckImageAndDomainLength(self._image, domain)\n        self._domain = domain", "        self._domain = domain")
mut("C13", "fixedarray_reduce_by_category_and_unit", FA, "            (self._dimension, self._quantity, self.values, None),  # Unit defined in quantity", "            (self._dimension, self._quantity.GetCategory(), self.values, self._quantity.GetUnit()),")
mut("C07", "new_quantity_op_edits_left_operand_map", UD, "        category_to_unit_and_exp1 = quantity1.GetCategoryToUnitAndExpsCopy()\n        category_to_unit_and_exp2 = quantity2.GetCategoryToUnitAndExpsCopy()", "        category_to_unit_and_exp1 = quantity1.GetCategoryToUnitAndExps() if len(quantity1.GetCategoryToUnitAndExps()) > 1 else quantity1.GetCategoryToUnitAndExpsCopy()\n        category_to_unit_and_exp2 = quantity2.GetCategoryToUnitAndExpsCopy()")
mut("C11", "createcopy_keeps_old_dimension_unchecked", FA, "        return Array.CreateCopy(\n            self, values=values, unit=unit, category=category, dimension=self._dimension, **kwargs\n        )", "        if values is not None and unit is None and category is None:\n            new = Array.CreateCopy(self, unit=unit, category=category, dimension=self._dimension, **kwargs)\n            new._value = values\n            return new\n        return Array.CreateCopy(\n            self, values=values, unit=unit, category=category, dimension=self._dimension, **kwargs\n        )")
mut("C11", "index_as_scalar_ignores_quantity_unit", FA, "            quantity, self.GetValues(unit=quantity.GetUnit())[index]", "            quantity, self.GetValues()[index]")
mut("C11", "empty_array_skips_dimension", FA, "        return cls.CreateWithQuantity(quantity, dimension=dimension, values=values)", "        return cls.CreateWithQuantity(quantity, values=values)")

# ---------------------------------------------------------------------------------------- C13
mut("C13", "convert_fraction_without_copy", FS, "            converted_fraction = copy.copy(fraction_value.GetFraction())", "            converted_fraction = fraction_value.GetFraction()")
mut("C13", "validate_sorts_container", AR, "                        iterator: Iterator[Any] = iter(values)\n", "                        if isinstance(values, list):\n                            values.sort()\n                        iterator: Iterator[Any] = iter(values)\n")
mut("C13", "numpy_conversion_in_place", UD, "            to_base = from_unit_info.tobase\n            from_base = to_unit_info.frombase\n            return from_base(to_base(array))", "            to_base = from_unit_info.tobase\n            from_base = to_unit_info.frombase\n            if array.dtype.kind == 'f':\n                array[...] = from_base(to_base(array))\n                return array\n            return from_base(to_base(array))")
mut("C13", "createcopy_value_assigns_self", AV, "            if unit is None and category is None:\n                return self.CreateWithQuantity(self._quantity, value=value, **kwargs)", "            if unit is None and category is None:\n                if not kwargs and type(self).__name__ == 'Scalar':\n                    self._value = float(value)\n                    return self\n                return self.CreateWithQuantity(self._quantity, value=value, **kwargs)")
mut("C13", "changing_index_writes_original_list", FA, "        values = list(self.GetValues(quantity.GetUnit()))", "        values = self.GetValues(quantity.GetUnit())\n        values = values if isinstance(values, list) else list(values)")
mut("C13", "array_op_reuses_operand_list", AR, "            result = []\n            q = None\n            for v0, v1 in values_iteration:\n                q, v = operation_func(q1, q2, v0, v1)\n                result.append(v)", "            result = []\n            q = None\n            for v0, v1 in values_iteration:\n                q, v = operation_func(q1, q2, v0, v1)\n                result.append(v)\n            if isinstance(getattr(p1, '_value', None), list) and len(p1._value) == len(result) and operation == 'Sum' and not IsNumber(p2):\n                p1._value[:] = result\n                result = p1._value")
mut("C13", "scalar_reduce_rounds_value", SC, "        return Scalar, (self._quantity, self.value, None)  # Unit defined in quantity", "        return Scalar, (self._quantity, float('%.12g' % self.value), None)")
mut("C13", "getvalues_same_unit_legacy_converts_in_place", AR, "        if IsListOfTuples(values):\n            result = []", "        if isinstance(values, list) and len(values) > 3 and not IsListOfTuples(values):\n            conv = self._quantity.Convert(values, unit)\n            values[:] = conv\n            self._quantity = self._quantity  # unit unchanged: value silently re-expressed\n            return conv\n        if IsListOfTuples(values):\n            result = []")

# ---------------------------------------------------------------------------------------- C14
mut("C14", "addunit_duplicate_check_removed", UD, "        if unit in self.unit_to_unit_info:\n            raise RuntimeError(\n                \"Unit: %s already added to the unit database for the quantity type: %s (trying to add to: %s)\"\n                % (unit, self.unit_to_unit_info[unit].quantity_type, quantity_type)\n            )\n        else:\n            self.unit_to_unit_info[unit] = info", "        self.unit_to_unit_info[unit] = info")
mut("C14", "addunitbase_not_moved_to_front", UD, "        infos = self.quantity_types[quantity_type]\n        base = infos[-1]  # was appended to the end in Units.Add\n        del infos[-1]\n        infos.insert(0, base)", "        infos = self.quantity_types[quantity_type]")
mut("C14", "addcategory_stores_before_validating_default_unit", UD, "        assert quantity_type is not None\n\n        # check if valid_units should inherit from the quantity_type", "        assert quantity_type is not None\n        self.categories_to_quantity_types[category] = CategoryInfo(category=category, quantity_type=quantity_type)\n\n        # check if valid_units should inherit from the quantity_type")
mut("C14", "default_unit_validation_dropped", UD, "            if default_unit not in quantity_units:\n                raise ValueError(\n                    \"unit %r is not valid for default quantity type %r\"\n                    % (default_unit, quantity_type)\n                )", "            pass")
mut("C14", "derived_default_value_ignores_min", UD, "            elif min_value is not None:\n                default_value = min_value\n            elif max_value is not None:", "            elif max_value is not None and min_value is None:")
mut("C14", "clear_forgets_unit_map", UD, "        self.unit_to_unit_info.clear()\n        self.quantities_cache.clear()", "        self.quantities_cache.clear()")
mut("C14", "valid_units_check_only_first", UD, "                if fixed_unit not in quantity_units:\n                    msg = \"unit %r is not valid for quantity type %r.\\nQuantity units: %r\"", "                if i == 0 and fixed_unit not in quantity_units:\n                    msg = \"unit %r is not valid for quantity type %r.\\nQuantity units: %r\"")
mut("C14", "legacy_default_unit_not_fixed", UD, "            if was_unit_fixed:\n                default_unit = fixed_default_unit\n            if default_unit not in quantity_units:", "            if fixed_default_unit not in quantity_units:")
mut("C14", "from_category_ignores_explicit_default_value", UD, "            if default_value is None:\n                default_value = category_info.default_value\n            if min_value is None:", "            default_value = category_info.default_value\n            if min_value is None:")
mut("C14", "default_value_max_assert_inclusive_only", UD, "                if is_max_exclusive:\n                    assert default_value < max_value, msg % (", "                if False:\n                    assert default_value < max_value, msg % (")
mut("C14", "override_keeps_memo_and_cache", UD, "        # Quantities already interned may not be handed out again: when a category is replaced they\n        # embed the previous category info (quantity type, limits, conversion), and a request that\n        # named only a unit was resolved without this category (it may be the unit's default\n        # category now).\n        self.quantities_cache.clear()\n", "")
mut("C14", "getvalidunits_fallback_reverted", UD, "                if (\n                    base_category_info is not None\n                    and base_category_info.quantity_type == quantity_type\n                ):\n                    return self.GetValidUnits(quantity_type)", "                return self.GetValidUnits(quantity_type)")

# ---------------------------------------------------------------------------------------- C15
mut("C15", "revert_getvalidunits_copy", AV, "        valid_units = list(self.GetUnitDatabase().GetValidUnits(self.GetCategory()))", "        valid_units = self.GetUnitDatabase().GetValidUnits(self.GetCategory())")
mut("C15", "revert_memo_invalidation_addunit", UD, "        # A unit looked up before being registered was memoized as invalid for its categories.\n        self._category_unit_valid.clear()\n", "")
mut("C15", "revert_memo_invalidation_addcategory", UD, "        # Verdicts memoized before this registration (including negative ones) may now be wrong.\n        self._category_unit_valid.clear()\n", "")
mut("C15", "revert_cache_invalidation_override", UD, "        # category now).\n        self.quantities_cache.clear()\n        # Verdicts memoized", "        # category now).\n        pass\n        # Verdicts memoized")
mut("C15", "getvalidunits_memoises_type_units_into_category", UD, "            # the valid units have not been specified for the given category (so, let's return\n            # the units for the quantity type)\n            return self.GetUnits(quantity_type)", "            category_info.valid_units = self.GetUnits(quantity_type)\n            return category_info.valid_units")
mut("C15", "clear_keeps_quantities_cache", UD, "        self.unit_to_unit_info.clear()\n        self.quantities_cache.clear()\n        self._category_unit_valid.clear()", "        self.unit_to_unit_info.clear()\n        self._category_unit_valid.clear()")
mut("C15", "clear_keeps_memo", UD, "        self.unit_to_unit_info.clear()\n        self.quantities_cache.clear()\n        self._category_unit_valid.clear()", "        self.unit_to_unit_info.clear()\n        self.quantities_cache.clear()")
mut("C15", "default_category_memoised_per_unit", UD, "        try:\n            unit_info = self.unit_to_unit_info[unit]\n        except KeyError:\n            is_legacy, fixed_unit = FixUnitIfIsLegacy(unit)\n            if not is_legacy:\n                return None\n            unit_info = self.unit_to_unit_info[fixed_unit]\n        category = unit_info.default_category", "        memo = self.__dict__.setdefault('_default_category_memo', {})\n        if unit in memo:\n            return memo[unit]\n        memo[unit] = result = self._GetDefaultCategoryUncached(unit)\n        return result\n\n    def _GetDefaultCategoryUncached(self, unit: str) -> Optional[str]:\n        try:\n            unit_info = self.unit_to_unit_info[unit]\n        except KeyError:\n            is_legacy, fixed_unit = FixUnitIfIsLegacy(unit)\n            if not is_legacy:\n                return None\n            unit_info = self.unit_to_unit_info[fixed_unit]\n        category = unit_info.default_category")
mut("C15", "getcategoryinfo_autocreates_missing_category", UD, "        try:\n            return self.categories_to_quantity_types[category]\n        except KeyError:\n            categories_str = \"\"", "        try:\n            return self.categories_to_quantity_types[category]\n        except KeyError:\n            if category in self.quantity_types:\n                return self.AddCategory(category, category)\n            categories_str = \"\"")
mut("C15", "memo_keyed_by_unit_only", UD, "        key = (category, unit)\n        try:\n            # i.e.: if not valid", "        key = (self.categories_to_quantity_types[category].quantity_type if category in self.categories_to_quantity_types else category, unit)\n        try:\n            # i.e.: if not valid")
mut("C15", "unit_names_cached_per_type", UD, "        return [x.name for x in self.GetInfos(quantity_type)]", "        memo = self.__dict__.setdefault('_names_memo', {})\n        if quantity_type not in memo:\n            memo[quantity_type] = [x.name for x in self.GetInfos(quantity_type)]\n        return memo[quantity_type]")
mut("C15", "obtainquantity_consults_stale_alias_table", QT, "    key = (category, unit, unknown_unit_caption)  # type:ignore[assignment]\n    try:\n        return quantities_cache[key]\n    except KeyError:\n        pass  # Just go on with the regular flow.", "    key = (category, unit, unknown_unit_caption)  # type:ignore[assignment]\n    try:\n        return quantities_cache[key]\n    except KeyError:\n        pass  # Just go on with the regular flow.\n    _stale = unit_database.__dict__.setdefault('_by_unit', {})\n    if category is None and isinstance(unit, str) and unknown_unit_caption is None:\n        if unit in _stale:\n            return _stale[unit]\n        _q = Quantity(unit_database.GetDefaultCategory(unit) or '', unit) if unit_database.GetDefaultCategory(unit) else None\n        if _q is not None:\n            _stale[unit] = _q\n            return _q")

# ---------------------------------------------------------------------------------------- C17
mut("C17", "setcurrent_keeps_listening_to_previous", USM, "        if self._current is not None:\n            self._current.on_default_unit.Unregister(self._CategoryUnitChange)\n\n        self._current = unit_system", "        self._current = unit_system")
mut("C17", "add_does_not_select_when_none_current", USM, "        if self._current is None:\n            self.SetCurrent(unit_system)\n\n        return unit_system", "        if self._current is None and len(self._unit_systems) == 1:\n            self.SetCurrent(unit_system)\n\n        return unit_system")
mut("C17", "remove_keeps_removed_current", USM, "            if available:\n                self.SetCurrent(available[0])\n            else:\n                self.SetCurrent(None)", "            if available:\n                self.SetCurrent(available[0])")
mut("C17", "issubset_for_issuperset", USM, "        return set(current_categories).issuperset(required_categories_set)", "        return set(current_categories).issubset(required_categories_set) or set(current_categories).issuperset(required_categories_set)")
# (template_copy_not_deep is equivalent since UnitSystem keeps its own copy of the mapping)
mut("C17", "unitsystem_keeps_mapping_by_reference", US, "        self._units_mapping = dict(units_mapping)", "        self._units_mapping = units_mapping")
mut("C17", "getnewid_returns_used_id", USM, "        while new_id in ids:\n            count += 1\n            new_id = \"%s %d\" % (\"system\", count)\n        return new_id", "        return new_id")
mut("C17", "convert_reads_template", USM, "        current = self.current\n        if current is None or current.GetDefaultUnit(category) is None:\n            return value, unit", "        current = self._unit_system_template or self.current\n        if current is None or current.GetDefaultUnit(category) is None:\n            return value, unit")
mut("C17", "remove_assert_reintroduced", USM, "        if self._current is not None and self._current.GetId() == unit_system_id:", "        assert self._current is not None\n        if self._current.GetId() == unit_system_id:")
mut("C17", "duplicate_id_check_after_insert", USM, "        if id in self._unit_systems:\n            raise UnitSystemIDError(id)\n\n        if self._unit_system_template is not None:", "        if id in self._unit_systems and self._unit_systems[id].GetCaption() != caption:\n            raise UnitSystemIDError(id)\n\n        if self._unit_system_template is not None:")
mut("C17", "setcurrent_same_system_double_register_notifies_twice", USM, "        if self._current is not None:\n            self._current.on_default_unit.Register(self._CategoryUnitChange)\n            self.on_current(self._current)", "        if self._current is not None:\n            self._current.on_default_unit.Register(self._CategoryUnitChange)\n            self._current.on_default_unit.Register(self.on_unit_changed)\n            self.on_current(self._current)")
mut("C17", "removecategory_notifies_before_delete_and_on_missing", US, "        try:\n            del self._units_mapping[category]\n            self.on_default_unit(category, None)\n        except KeyError:", "        try:\n            self.on_default_unit(category, None)\n            del self._units_mapping[category]\n        except KeyError:")
mut("C17", "template_rejected_after_assignment", USM, "        if invalid_unit_systems:\n            # At least one of the existing unit system is not valid for this template. Notify that\n            # the template is invalid\n            raise InvalidTemplateError(invalid_unit_systems)\n\n        # NOTE: 'tr' for the caption (Unit system template) was removed.\n        self._unit_system_template = self._default_unit_system_class(\n            \"template\", \"Unit system template\", units_mapping, True\n        )", "        previous = self._unit_system_template\n        self._unit_system_template = self._default_unit_system_class(\n            \"template\", \"Unit system template\", units_mapping, True\n        )\n        if invalid_unit_systems:\n            raise InvalidTemplateError(invalid_unit_systems)")

# ---- mutants that are invisible unless an operation is cut short (F7 interrupt / F2 peer exception)
mut("C13", "convert_list_in_place_then_restore", UD, """            if isinstance(value, tuple):
                return tuple(values_gen)
            else:
                return list(values_gen)
""", """            if isinstance(value, tuple):
                return tuple(values_gen)
            else:
                original = value[:]
                for index, v in enumerate(original):
                    value[index] = frombase(tobase(v))
                result = value[:]
                value[:] = original
                return result
""")


def run_one(prop, name, file, old, new, runs, suite):
    d = tempfile.mkdtemp(prefix="barril-mut-", dir="/dev/shm")
    try:
        src = os.path.join(d, "src")
        shutil.copytree("/repo/src", src, ignore=shutil.ignore_patterns("__pycache__", "*.pyc"))
        path = os.path.join(src, file)
        s = open(path).read()
        if old not in s:
            return {"status": "PATCH-DOES-NOT-APPLY"}
        s = s.replace(old, new, 1)
        if "_dimension_given" in new:
            s = s.replace("        assert values is not None\n        if dimension is None:\n            try:", "        assert values is not None\n        _dimension_given = dimension is not None and not hasattr(self, '_quantity')\n        if dimension is None:\n            try:", 1)
        open(path, "w").write(s)
        out = {"status": None}
        if suite:
            env = dict(os.environ, PYTHONPATH=src, PYTHONDONTWRITEBYTECODE="1")
            p = subprocess.run(["/venv/bin/python", "-m", "pytest", "-q", "-x", "-p", "no:cacheprovider", "--rootdir", src, os.path.join(src, "barril")], env=env, cwd=src, stdout=subprocess.PIPE, stderr=subprocess.STDOUT, text=True, timeout=900)
            tail = p.stdout.strip().splitlines()[-1] if p.stdout.strip() else ""
            out["suite"] = "pass" if p.returncode == 0 else "FAIL: " + tail
        env = {k: v for k, v in os.environ.items() if k not in ("BARRIL_VERIF_BOOTED", "PYTHONPYCACHEPREFIX")}
        env["BARRIL_VERIF_SRC"] = src
        t0 = time.time()
        cmd = [os.path.join(VERIF, "check"), prop, "--tier", "quick", "--no-evidence"]
        if runs:
            cmd += ["--runs", str(runs)]
        p = subprocess.run(cmd, env=env, stdout=subprocess.PIPE, stderr=subprocess.STDOUT, text=True, timeout=1800)
        out["wall"] = round(time.time() - t0, 1)
        out["rc"] = p.returncode
        viol = [l for l in p.stdout.splitlines() if l.startswith("violation:")]
        out["first"] = viol[0][:260] if viol else ""
        out["status"] = "CAUGHT" if (p.returncode == 1 and "VIOLATION property=" in p.stdout) else ("HARNESS(rc=%d)" % p.returncode if p.returncode not in (0, 1) else "MISSED")
        if out["status"].startswith("HARNESS"):
            out["tail"] = p.stdout[-1500:]
        # replays written by a mutant run are artefacts of the self-test only
        for l in p.stdout.splitlines():
            if l.startswith("VIOLATION property=") and "/replays/" in l:
                try:
                    os.remove(l.split("replay=")[1].strip())
                except OSError:
                    pass
        return out
    finally:
        shutil.rmtree(d, ignore_errors=True)


def main():
    args = sys.argv[1:]
    runs = None
    only = None
    suite = "--suite" in args
    if "--runs" in args:
        runs = int(args[args.index("--runs") + 1])
    if "--only" in args:
        only = args[args.index("--only") + 1]
    props = [a for a in args if a.startswith("C") and len(a) == 3]
    results = []
    for prop, name, file, old, new in M:
        if props and prop not in props:
            continue
        if only and only != name:
            continue
        r = run_one(prop, name, file, old, new, runs, suite)
        r.update({"property": prop, "mutant": name})
        results.append(r)
        print("%-4s %-45s %-22s %6ss suite=%s  %s" % (prop, name, r["status"], r.get("wall", "-"), r.get("suite", "-"), r.get("first", "")[:170]))
        if r.get("tail"):
            print(r["tail"])
        sys.stdout.flush()
    caught = sum(1 for r in results if r["status"] == "CAUGHT")
    print("caught %d / %d" % (caught, len(results)))
    with open(os.path.join(HERE, "mutants_last.json"), "w") as f:
        json.dump(results, f, indent=1)


if __name__ == "__main__":
    main()
