#!/bin/bash
# ptree.sh <seeded-id>  -> prints the path of a scratch copy of /repo/src with seeded/<id>/patch.diff applied
# (under /dev/shm/pt/<id>; remove it when done)
set -e
id=$1
d=/dev/shm/pt/$id
rm -rf $d; mkdir -p $d
cp -r /repo/src $d/src
find $d -name __pycache__ -prune -exec rm -rf {} + 2>/dev/null || true
(cd $d && git init -q && git apply --whitespace=nowarn /verif/seeded/$id/patch.diff)
echo $d/src
