"""
Evaluate a seeded change (patch.diff + demo.py + meta.json) against the checks.

For each directory given:
  1. copy /repo/src to a scratch tree in /dev/shm, apply patch.diff there (git apply --directory)
  2. run the repository's test-suite on the patched tree            -> must pass
  3. run demo.py on the unpatched and on the patched tree            -> 0 / non-zero
  4. run ./check <prop> --tier quick with BARRIL_VERIF_SRC=<patched> -> VIOLATION expected
The scratch tree is removed afterwards.  Results are printed and appended to meta.json["evaluation"]
when --record is given.

usage: seeded.py DIR [DIR...] [--record] [--runs N] [--props C05,C07]
"""
import json
import os
import shutil
import subprocess
import sys
import tempfile
import time

HERE = os.path.dirname(os.path.abspath(__file__))
VERIF = os.path.dirname(HERE)


def sh(cmd, **kw):
    return subprocess.run(cmd, stdout=subprocess.PIPE, stderr=subprocess.STDOUT, text=True, **kw)


def evaluate(d, runs=None, props=None, record=False):
    meta_path = os.path.join(d, "meta.json")
    meta = json.load(open(meta_path)) if os.path.exists(meta_path) else {}
    prop = meta.get("property") or os.path.basename(os.path.dirname(os.path.abspath(d)))
    props = props or [prop]
    patch = os.path.join(d, "patch.diff")
    demo = os.path.join(d, "demo.py")
    scratch = tempfile.mkdtemp(prefix="barril-seeded-", dir="/dev/shm")
    out = {"dir": d, "property": prop}
    try:
        tree = os.path.join(scratch, "tree")
        os.makedirs(tree)
        shutil.copytree("/repo/src", os.path.join(tree, "src"), ignore=shutil.ignore_patterns("__pycache__", "*.pyc"))
        for f in ("pyproject.toml", "setup.py", "tox.ini"):
            if os.path.exists(os.path.join("/repo", f)):
                shutil.copy(os.path.join("/repo", f), tree)
        sh(["git", "init", "-q"], cwd=tree)
        p = sh(["git", "apply", "--whitespace=nowarn", os.path.abspath(patch)], cwd=tree)
        if p.returncode != 0:
            out["apply"] = "FAILED: " + p.stdout[-400:]
            return out
        out["apply"] = "ok"
        src = os.path.join(tree, "src")
        env = dict(os.environ, PYTHONPATH=src, PYTHONDONTWRITEBYTECODE="1")
        p = sh(["/venv/bin/python", "-m", "pytest", "-q", "-p", "no:cacheprovider", os.path.join(src, "barril")], env=env, cwd=tree, timeout=1200)
        tail = p.stdout.strip().splitlines()[-1] if p.stdout.strip() else ""
        out["suite"] = "pass (%s)" % tail if p.returncode == 0 else "FAIL: " + tail
        if os.path.exists(demo):
            p0 = sh(["/venv/bin/python", os.path.abspath(demo)], env=dict(os.environ, PYTHONPATH="/repo/src", PYTHONDONTWRITEBYTECODE="1"), cwd=scratch, timeout=600)
            p1 = sh(["/venv/bin/python", os.path.abspath(demo)], env=env, cwd=scratch, timeout=600)
            out["demo_unpatched_rc"] = p0.returncode
            out["demo_patched_rc"] = p1.returncode
            out["demo_patched_tail"] = p1.stdout.strip()[-300:]
        out["checks"] = {}
        for pr in props:
            e2 = {k: v for k, v in os.environ.items() if k not in ("BARRIL_VERIF_BOOTED", "PYTHONPYCACHEPREFIX")}
            e2["BARRIL_VERIF_SRC"] = src
            cmd = [os.path.join(VERIF, "check"), pr, "--tier", "quick", "--no-evidence"]
            if runs:
                cmd += ["--runs", str(runs)]
            t0 = time.time()
            p = sh(cmd, env=e2, timeout=3600)
            viol = [l for l in p.stdout.splitlines() if l.startswith("violation")]
            status = "CAUGHT" if (p.returncode == 1 and "VIOLATION property=" in p.stdout) else ("MISSED" if p.returncode == 0 else "HARNESS rc=%d" % p.returncode)
            out["checks"][pr] = {"status": status, "wall_s": round(time.time() - t0, 1), "first": viol[0][:400] if viol else "", "tail": p.stdout[-600:] if status.startswith("HARNESS") else ""}
            for l in p.stdout.splitlines():
                if l.startswith("VIOLATION property=") and "/replays/" in l:
                    try:
                        os.remove(l.split("replay=")[1].strip())
                    except OSError:
                        pass
        if record:
            meta["evaluation"] = {k: v for k, v in out.items() if k != "dir"}
            meta["evaluation"]["how"] = "selftest/seeded.py: patch applied to a scratch copy of /repo/src in /dev/shm (removed afterwards); suite = pytest on the patched tree; check = ./check <prop> --tier quick with BARRIL_VERIF_SRC pointing at the patched tree"
            json.dump(meta, open(meta_path, "w"), indent=1)
        return out
    finally:
        shutil.rmtree(scratch, ignore_errors=True)


def main():
    args = sys.argv[1:]
    record = "--record" in args
    runs = int(args[args.index("--runs") + 1]) if "--runs" in args else None
    props = args[args.index("--props") + 1].split(",") if "--props" in args else None
    skip = set()
    for flag in ("--runs", "--props"):
        if flag in args:
            skip.add(args.index(flag) + 1)
    dirs = [a for n, a in enumerate(args) if not a.startswith("--") and n not in skip]
    for d in dirs:
        r = evaluate(d, runs, props, record)
        print(json.dumps(r, indent=1))
        sys.stdout.flush()


if __name__ == "__main__":
    main()
