"""Evidence file written by the check itself on every run (schema: EVIDENCE.schema.json)."""
import json
import os

from .boot import VERIF_DIR

COMPONENTS = {
    "real": [
        "all of src/barril (imported from the working tree)",
        "oop_ext Singleton / Callback",
        "numpy",
        "pickle / copy / gc",
        "os.fork for run isolation, cold replicas and restarts",
    ],
    "simulator_owned": [
        "seeded scheduler and clients",
        "listeners and conversion callables (peers)",
        "reference models and oracles",
        "KeyboardInterrupt line tracer (sys.settrace), interrupt sweeps in forked grandchildren",
        "fresh-interpreter successor of a restart (sim/xrestart.py)",
    ],
    "stubbed_barril_code": [],
}


def _executable_lines(path):
    """Line numbers that carry code in a source file (from the compiled code objects)."""
    try:
        code = compile(open(path).read(), path, "exec")
    except Exception:
        return set()
    out = set()
    stack = [code]
    while stack:
        c = stack.pop()
        for _s, _e, ln in c.co_lines():
            if ln is not None:
                out.add(ln)
        for k in c.co_consts:
            if hasattr(k, "co_lines"):
                stack.append(k)
    return out


def _line_reach(tot):
    """Reach probe: barril source lines executed by the sampled histories, per file."""
    from .boot import src_dir

    per = {}
    for f, l in tot.get("lines", ()):
        per.setdefault(f, set()).add(l)
    files = {}
    total_hit = total_exec = 0
    for f in sorted(per):
        ex = _executable_lines(os.path.join(src_dir(), f))
        hit = per[f] & ex if ex else per[f]
        files[f] = "%d/%d" % (len(hit), len(ex))
        if f.endswith("units/posc.py"):
            continue  # the unit table itself: executed once at import time, before any history
        total_hit += len(hit)
        total_exec += len(ex)
    return {
        "sampled_runs": tot.get("cover_runs", 0),
        "note": "replay of 1 run in 50 under a line tracer (faults stripped); executed / executable lines of the files touched (totals without posc.py, the table that is filled at import time); a reach measure, never a verdict",
        "lines_executed": total_hit,
        "executable_lines_of_touched_files": total_exec,
        "per_file": files,
    }


def write_evidence(prop, tier, seed, profile, tot, wall, violations, known_printed, known_entries, directed, shrink_stats, args, directed_info=None):
    runs = tot["runs"]
    fired = dict(sorted(tot["faults_fired"].items()))
    probes = {k: v for k, v in sorted(tot["stats"].items()) if k.startswith(("probe:", "intr@", "restart_", "F7.", "precondition", "quantities_", "skipped", "st:"))}
    opkinds = {k[3:]: v for k, v in sorted(tot["stats"].items()) if k.startswith("op:")}
    fams = {}
    for k, v in opkinds.items():
        f = k.split(".")[0]
        fams[f] = fams.get(f, 0) + v
    cov = {
        "evaluations": runs,
        "distinct_nontrivial": len(tot["shapes_nontrivial"]),
        "rule": (
            "one evaluation = one simulated run: a seeded history of public calls issued by several "
            "clients on one shared process-global state, with faults injected at seeded points, plus "
            "its cross-executions (%s). distinct = sha1 of the (client, op kind, fault tag, outcome "
            "class) sequence; non-trivial = at least one fault actually fired and at least one "
            "oracle comparison was evaluated in that run." % ", ".join(sorted(tot["execs"])) 
        ),
        "samples": tot["samples"][:2] or [{"note": "no run completed"}],
        "seeded_search": True,
        "exhaustive": False,
        "runs_per_hour": int(runs / wall * 3600) if wall > 0 else 0,
        "seeds": {"VERIF_SEED": seed, "derivation": "sha256(VERIF_SEED:property:tier:index)[:8]", "indices": [getattr(args, "start_index", 0), max(tot["digests"]) if tot["digests"] else -1]},
        "simulated_time": {"unit": "logical steps (barril has no clock, timer or deadline)", "steps": tot["steps"]},
        "oracle_comparisons": tot["oracle_checks"],
        "executions": dict(sorted(tot["execs"].items())),
        "fault_kinds_fired": fired,
        "distinct_histories_all": len(tot["shapes_all"]),
        "distinct_op_bigrams": len(tot["bigrams"]),
        "distinct_fault_victim_pairs": len(tot["fault_victims"]),
        "fault_victim_pairs": [list(x) for x in sorted(tot["fault_victims"])][:80],
        "distinct_abstract_states": len(tot["states"]),
        "op_families": fams,
        "op_kinds_executed": len(opkinds),
        "probes": probes,
        "components": COMPONENTS,
        "directed_replays": directed,
        "directed_whole_database_checks": directed_info or [],
        "known_findings_hit": sorted(known_printed),
        "shrink": shrink_stats,
        "harness_incidents": len(tot["harness"]),
        "workers": args.workers,
    }
    cov["real_code_reached"] = _line_reach(tot)
    zero = [k for k in getattr(profile, "expected_faults", []) if not fired.get(k)]
    if zero:
        cov["warnings"] = ["fault kind configured but never fired in this batch: %s" % ", ".join(zero)]
    doc = {
        "property_id": prop,
        "tier": tier,
        "seed": seed,
        "level": "exploration",
        "coverage": cov,
        "assumptions": [
            "seeded sampling of histories and fault points, not enumeration: a clean batch is evidence, not proof",
            "CPython %s, numpy as installed; floats compared bit-exactly between executions on the same machine" % ".".join(map(str, __import__("sys").version_info[:3])),
            "single-threaded use; no thread schedules, database switches, locale changes or caller-side mutation of containers are simulated (no listed property quantifies over them)",
        ],
        "wall_s": round(wall, 3),
        "violations": len(violations),
    }
    os.makedirs(os.path.join(VERIF_DIR, "evidence"), exist_ok=True)
    path = os.path.join(VERIF_DIR, "evidence", prop + ".json")
    with open(path, "w") as f:
        json.dump(doc, f, indent=1, sort_keys=False, allow_nan=False, default=str)
    return path
