"""
Op-level oracles.  A spec travels inside the recorded op ("x": [...]); every oracle re-evaluates
its own precondition on the actual operands at execution time, so a shrunk / replayed history can
never turn an expectation into a false alarm.
"""
from . import model as M
from .ops import Codec, SkipOp


def _get(sim, enc):
    try:
        return Codec(sim.pool).dec(enc)
    except SkipOp:
        return _MISSING


_MISSING = object()


def _peer_arithmetic(sim, out):
    """The call ended with an ArithmeticError after it had called into a caller-supplied conversion
    function (e.g. a reciprocal unit asked for the amount 0): the exception is the peer's, no
    statement obliges barril to turn it into something else."""
    from .ops import PEER

    return out[0] == "exc" and isinstance(out[1], ArithmeticError) and PEER["calls"] > getattr(sim, "peer_calls_before", PEER["calls"])


def _exc_names(e):
    return [c.__name__ for c in type(e).__mro__]


def o_same_as(sim, op, spec, out):
    other = _get(sim, {"ref": spec["ref"]})
    if other is _MISSING or out[0] != "ok":
        if other is not _MISSING and out[0] == "exc":
            sim.check(
                False,
                spec["id"],
                {"case": "repeat_raises", "form": op["k"]},
                op["i"],
                "request %s succeeded at step %s but raised %r when repeated" % (op["k"], spec["ref"], out[1]),
            )
        return
    sim.check(
        out[1] is other,
        spec["id"],
        {"case": "repeat_not_identical", "form": op["k"]},
        op["i"],
        lambda: "repeated request %s returned a different object than step %s" % (op["k"], spec["ref"]),
    )


def o_q_request(sim, op, spec, out):
    """C07: a request resolves to the category / unit / caption / composing map it names, so that
    requests that resolve differently return unequal quantities (e.g. a captioned request never
    gets the caption-less twin that happens to be interned already)."""
    import barril.units as u

    if out[0] != "ok" or not isinstance(out[1], u.Quantity):
        return
    q = out[1]
    form = spec["form"]
    args, kw = sim.last_args, sim.last_kw
    sid = spec["id"]
    want_cap = None
    want_map = None
    want_unit = None
    want_cat = None
    if form in ("u", "uc", "ucc", "nonec", "legacy"):
        un = args[0]
        want_cat = args[1] if len(args) > 1 else None
        want_cap = args[2] if len(args) > 2 else None
        want_unit = M.current_spelling(un) if un is not None else None
        if un is not None and want_cat is None and form in ("u", "legacy"):
            # ObtainQuantity(unit): "the category is gotten based on the unit passed"
            try:
                want_cat = _db().GetDefaultCategory(want_unit)
            except Exception:
                want_cat = None
        if un is None and want_cat is not None:
            # ObtainQuantity(None, category): the category's default unit as registered NOW
            try:
                want_unit = _db().GetDefaultUnit(want_cat)
            except Exception:
                want_unit = None
    elif form == "ctor":
        want_cat, want_unit = args[0], M.current_spelling(args[1])
    elif form == "derived":
        want_map = [[c, M.current_spelling(ue[0]), ue[1]] for c, ue in args[0].items()]
        want_cap = kw.get("unknown_unit_caption")
        if want_cap is None and len(args) > 1:
            want_cap = args[1]  # CreateDerived(map, caption): the caption given positionally
    elif form == "derived_obtain":
        want_map = [[c, M.current_spelling(ue[0]), ue[1]] for c, ue in args[0].items()]
        want_cap = args[2] if len(args) > 2 else None
    elif form in ("list", "list1"):
        want_map = [[c, M.current_spelling(ue[0]), ue[1]] for c, ue in zip(args[1], args[0])]
    elif form == "unknown_c":
        want_cap = args[0] if args else None
    sig = {"case": "request_not_honoured", "form": op["k"]}
    if want_cap is not None:
        sim.check(q.GetUnknownCaption() == want_cap, sid, dict(sig, field="caption"), op["i"], lambda: "requested caption %r, got quantity with caption %r" % (want_cap, q.GetUnknownCaption()))
    elif form in ("u", "uc", "nonec", "derived", "derived_obtain", "list", "list1", "ctor", "legacy"):
        sim.check(not q.GetUnknownCaption(), sid, dict(sig, field="caption"), op["i"], lambda: "request without caption got caption %r" % (q.GetUnknownCaption(),))
    if want_cat is not None:
        sim.check(q.GetCategory() == want_cat, sid, dict(sig, field="category"), op["i"], lambda: "requested category %r, got %r" % (want_cat, q.GetCategory()))
    if want_unit is not None:
        sim.check(q.GetUnit() == want_unit, sid, dict(sig, field="unit"), op["i"], lambda: "requested unit %r, got %r" % (want_unit, q.GetUnit()))
    if want_map is not None and all(e != 0 for _c, _u, e in want_map):
        # (whether a legacy spelling inside a composing map is rewritten is C16's subject, not C07's)
        got = [[c, M.current_spelling(ue[0]), ue[1]] for c, ue in q.GetCategoryToUnitAndExps().items()]
        sim.check(got == want_map, sid, dict(sig, field="composing_map"), op["i"], lambda: "requested map %r, got %r" % (want_map, got))


def _is(sim, op, spec, out, orig):
    if out[0] != "ok" or orig is _MISSING:
        if out[0] == "exc":
            sim.check(False, spec["id"], {"case": "copy_raises", "via": op["k"]}, op["i"], "copy raised %r" % (out[1],))
        return
    sim.check(
        out[1] is orig,
        spec["id"],
        {"case": "copy_not_identical", "via": op["k"]},
        op["i"],
        lambda: "%s returned a different object" % op["k"],
    )


def o_is_arg(sim, op, spec, out):
    _is(sim, op, spec, out, sim.last_args[spec.get("arg", 0)])


def o_is_target(sim, op, spec, out):
    _is(sim, op, spec, out, sim.last_target)


def _hashable(v):
    import barril.units as u

    return isinstance(v, (u.Scalar, u.Quantity)) and not isinstance(v, u.Array)


def _has_nan(v):
    import math

    import barril.units as u

    try:
        if isinstance(v, u.Scalar):
            return math.isnan(v.GetValue())
        if isinstance(v, u.Array):
            import numpy

            vals = v.GetValues()
            arr = numpy.asarray(vals, dtype=float)
            return bool(numpy.isnan(arr).any()) or arr.ndim > 1
    except Exception:
        return True
    return False


def _still_registered(v):
    """False for an object whose category has meanwhile been re-registered with another quantity
    type (its unit is not a unit of the category any more): it cannot be re-created from its
    description, pickling it is not covered by any statement."""
    q = M.quantity_of(v)
    if q is None:
        return True
    db = _db()
    try:
        for cat, ue in q.GetCategoryToUnitAndExps().items():
            if not cat and not ue[0]:
                continue
            if db.IsValidCategory(cat) and db.GetCategoryQuantityType(cat) != M.unit_type(ue[0]) and db.GetCategoryQuantityType(cat) != M.UNKNOWN:
                return False
    except Exception:
        return True
    return True


def _eq(sim, op, spec, out, orig):
    if orig is _MISSING or out[0] == "intr":
        return
    if "pickle" in spec["id"] and not _still_registered(orig):
        sim.count("precondition_lapsed")
        return
    if out[0] == "exc":
        sim.check(False, spec["id"], {"case": "raises", "via": op["k"], "class": type(orig).__name__}, op["i"], "%s raised %r" % (op["k"], out[1]))
        return
    if _has_nan(orig):
        return  # IEEE: NaN != NaN, not barril's doing
    res = out[1]
    import barril.units as u

    if spec["id"].endswith("pickle_dimension"):
        if isinstance(orig, u.FixedArray):
            sim.check(
                isinstance(res, u.FixedArray) and res.dimension == orig.dimension and len(res.GetValues()) == orig.dimension,
                spec["id"],
                {"case": "dimension_lost", "via": op["k"]},
                op["i"],
                lambda: "pickled FixedArray dimension %r -> %r" % (orig.dimension, getattr(res, "dimension", None)),
            )
        return
    try:
        ok = (res == orig) and (orig == res) and not (res != orig) and type(res) is type(orig)
        if ok and _hashable(orig):
            ok = hash(res) == hash(orig)
    except Exception as e:
        ok = False
        res = e
    sim.check(
        ok,
        spec["id"],
        {"case": "not_equal", "via": op["k"], "class": type(orig).__name__},
        op["i"],
        lambda: "%s of %r gave %r" % (op["k"], orig, res),
    )


def o_eq_arg(sim, op, spec, out):
    _eq(sim, op, spec, out, sim.last_args[spec.get("arg", 0)])


def o_eq_target(sim, op, spec, out):
    _eq(sim, op, spec, out, sim.last_target)


def o_raises(sim, op, spec, out):
    if out[0] == "intr" or _peer_arithmetic(sim, out):
        return
    ok = out[0] == "exc" and any(n in _exc_names(out[1]) for n in spec["cls"])
    sig = {"case": spec.get("case", "must_raise"), "got": out[0] if out[0] != "exc" else type(out[1]).__name__}
    sim.check(
        ok,
        spec["id"],
        sig,
        op["i"],
        lambda: "%s must raise %s, got %s %r" % (op["k"], spec["cls"], out[0], out[1]),
    )


def o_raises_any(sim, op, spec, out):
    """Unknown unit where a unit is required: must not return a value."""
    if out[0] == "intr" or _peer_arithmetic(sim, out):
        return
    if spec.get("unit") is not None and M.unit_type(spec["unit"]) is not None:
        sim.count("precondition_lapsed")  # the name is registered (by now): nothing to refuse
        return
    ok = out[0] == "exc" and isinstance(out[1], M.loud_classes())
    sim.check(
        ok,
        spec["id"],
        {"why": spec.get("why"), "api": _api(op), "got": out[0] if out[0] != "exc" else type(out[1]).__name__},
        op["i"],
        lambda: "%s with an unknown unit: %s %r" % (op["k"], out[0], out[1]),
    )


def _api(op):
    k = op["k"]
    for p in ("flt.incompatible.", "flt.unknown_name.", "flt.bad_arg."):
        if k.startswith(p):
            return k[len(p) :]
    return k


def o_reject(sim, op, spec, out):
    """C05.loud: a dimensionally incompatible request raises a units/type error, never returns."""
    if out[0] == "intr" or _peer_arithmetic(sim, out):
        return
    why = spec["why"]
    if why == "pair":
        x, y = _get(sim, spec["x"]), _get(sim, spec["y"])
        if x is _MISSING or y is _MISSING or not M.incompatible(x, y):
            sim.count("precondition_lapsed")
            return
    elif why == "unit":
        x = _get(sim, spec["x"])
        if x is _MISSING or not M.foreign_unit(x, spec["unit"]):
            sim.count("precondition_lapsed")
            return
    elif why == "unit_derived":
        x = _get(sim, spec["x"])
        if x is _MISSING or not M.foreign_unit_for_derived(x, spec["unit"]):
            sim.count("precondition_lapsed")
            return
    elif why == "catunit":
        if not M.foreign_cat_unit(spec["category"], spec["unit"]):
            sim.count("precondition_lapsed")
            return
    ok = out[0] == "exc" and isinstance(out[1], M.loud_classes())
    sig = {"why": why, "api": _api(op), "got": out[0] if out[0] != "exc" else type(out[1]).__name__}
    if why == "pair" and not ok:
        sig["empty_operands"] = _both_empty_lists(x, y)
    sim.check(
        ok,
        spec["id"],
        sig,
        op["i"],
        lambda: "%s must be rejected with a units/type error, got %s %r" % (op["k"], out[0], out[1]),
    )


def o_reject_db2(sim, op, spec, out):
    """C05.loud on the SECOND database instance: a conversion between units that do not both belong
    to the given quantity type IN THAT DATABASE must be refused, whatever the singleton knows."""
    from .ops import OTHER_DB

    db2 = OTHER_DB["db"]
    if out[0] == "intr" or db2 is None or _peer_arithmetic(sim, out):
        return
    t, frm, to = spec["t"], spec["frm"], spec["to"]
    if frm == to or (db2.GetQuantityType(frm) == t and db2.GetQuantityType(to) == t):
        sim.count("precondition_lapsed")
        return
    ok = out[0] == "exc" and isinstance(out[1], M.loud_classes())
    sim.check(ok, spec["id"], {"why": "other_database", "api": _api(op), "got": out[0] if out[0] != "exc" else type(out[1]).__name__}, op["i"], lambda: "%s on the second database must be rejected, got %s %r" % (op["k"], out[0], out[1]))


def o_twice_same(sim, op, spec, out):
    """C15: a per-object memo is a cache too - the same question to the same object answers the same."""
    if out[0] != "ok" or not (isinstance(out[1], list) and len(out[1]) == 2):
        return
    a, b = out[1]
    sim.check(a == b, spec["id"], {"query": op["k"][:60], "after": "same_question_same_object"}, op["i"], lambda: "%s: first %r, then %r" % (op["k"], a, b))


def _both_empty_lists(x, y):
    import barril.units as u

    try:
        return bool(
            isinstance(x, u.Array)
            and isinstance(y, u.Array)
            and isinstance(x.GetValues(), (list, tuple))
            and isinstance(y.GetValues(), (list, tuple))
            and (len(x.GetValues()) == 0 or len(y.GetValues()) == 0)
        )
    except Exception:
        return False


# ------------------------------------------------------------------------------------ C11


def _db():
    from barril.units.unit_database import UnitDatabase

    return UnitDatabase.GetSingleton()


def _flat(vals):
    import numpy

    return all(isinstance(v, (int, float, numpy.integer, numpy.floating)) and not isinstance(v, bool) for v in vals)


def _rel(vals):
    """Comparison guard: 1e-12 for double precision, single-precision containers get 1e-6."""
    import numpy

    if any(isinstance(v, numpy.floating) and v.dtype.itemsize < 8 for v in vals):
        return 1e-6
    return 1e-12


def _f32_bound(db, qt, from_u, to_u, v, want):
    """Error bound for a conversion carried out in single precision: every intermediate term
    (amount times factor, offset, base amount, target offset) is rounded relative to ITS magnitude,
    not to the magnitude of the final amount (affine conversions cancel leading digits)."""
    eps = 1e-6
    try:
        base_u = db.GetBaseUnit(qt)
        b0 = float(db.Convert(qt, from_u, base_u, 0.0))
        b = float(db.Convert(qt, from_u, base_u, float(v)))
        t0 = float(db.Convert(qt, base_u, to_u, 0.0))
        t1 = float(db.Convert(qt, base_u, to_u, 1.0))
        base_err = eps * (abs(b0) + abs(b - b0) + abs(b))
        return 4.0 * (abs(t1 - t0) * base_err + eps * (abs(t0) + abs(float(want) - t0) + abs(float(want))))
    except Exception:
        return None


def _representable(want, rel):
    """Single-precision containers are converted in single precision: an expected amount outside
    the float32 range (overflow to inf, underflow to 0/subnormal) cannot be compared."""
    import math

    if rel < 1e-7:
        return True
    try:
        w = abs(float(want))
    except Exception:
        return False
    if math.isnan(w) or math.isinf(w):
        return False
    return w == 0.0 or 1e-30 < w < 1e30


def _representable_via_base(db, qt, unit, v, rel):
    """Single precision: the intermediate amount in the base unit must be representable too."""
    if rel < 1e-7:
        return True
    try:
        mid = db.Convert(qt, unit, db.GetBaseUnit(qt), float(v))
    except Exception:
        return False
    return _representable(mid, rel)


def o_changing_index(sim, op, spec, out):
    import barril.units as u

    fa = sim.last_target
    if not isinstance(fa, u.FixedArray):
        return
    idx, x = sim.last_args[0], sim.last_args[1]
    uvu = sim.last_kw.get("use_value_unit", True)
    sid = spec["id"]
    sig = {"form": "scalar" if isinstance(x, u.Scalar) else type(x).__name__, "use_value_unit": bool(uvu)}
    if out[0] == "exc":
        # a well-formed request (index in range, amount of the array's own quantity type, flat
        # numeric container) must return the new array; arithmetic errors of the conversion itself
        # (poles, overflow) are the only exceptions that are not the method's doing
        if _changing_index_wellformed(fa, idx, x) and not isinstance(out[1], ArithmeticError):
            sim.check(False, sid, dict(sig, case="valid_request_raises", exc=type(out[1]).__name__), op["i"], "ChangingIndex(%r, ...) on dimension %r raised %r" % (idx, fa.dimension, out[1]))
        return
    if out[0] != "ok":
        return
    res = out[1]
    if not sim.check(isinstance(res, u.FixedArray) and res is not fa, sid, dict(sig, case="not_new_fixedarray"), op["i"], "ChangingIndex returned %r" % (res,)):
        return
    if not sim.check(res.dimension == fa.dimension and len(res.GetValues()) == fa.dimension, sid, dict(sig, case="dimension"), op["i"], "dimension %r -> %r" % (fa.dimension, res.dimension)):
        return
    q = fa.GetQuantity()
    if q.IsDerived() or not M.is_simple_known(fa):
        return
    qt = q.GetQuantityType()
    if isinstance(x, u.Scalar):
        if x.GetQuantity().IsDerived() or x.GetQuantityType() != qt:
            return
        xv, xu = x.GetValue(), x.GetUnit()
        want_unit = xu if uvu else fa.GetUnit()
    elif isinstance(x, tuple):
        xv, xu = x
        if xv is None:
            xv = fa.GetValues()[idx]
            # value kept, unit changed: amount re-expressed
            xv = _db().Convert(qt, fa.GetUnit(), xu, xv) if xu else xv
        xu = xu or fa.GetUnit()
        want_unit = xu if uvu else fa.GetUnit()
    else:
        xv, xu = float(x), fa.GetUnit()
        want_unit = fa.GetUnit()
    want_unit = M.current_spelling(want_unit)  # a legacy spelling is an alias of the table unit
    if not sim.check(res.GetUnit() == want_unit, sid, dict(sig, case="unit"), op["i"], "unit %r, expected %r" % (res.GetUnit(), want_unit)):
        return
    db = _db()
    n = fa.dimension
    pos = idx % n
    vals = list(fa.GetValues())
    got = list(res.GetValues())
    if not (_flat(vals) and _flat(got) and _flat([xv])):
        sim.count("oracle_inapplicable:non_flat_container")
        return
    rel = _rel(vals + got)
    for j in range(n):
        try:
            if j == pos:
                want = db.Convert(qt, xu, want_unit, float(xv))
            else:
                want = db.Convert(qt, fa.GetUnit(), want_unit, float(vals[j]))
        except ArithmeticError:
            sim.count("oracle_inapplicable:conversion_raises")
            continue
        if not _representable(want, rel) or not all(_representable(v, rel) for v in vals) or not _representable_via_base(db, qt, fa.GetUnit(), vals[j], rel):
            sim.count("oracle_inapplicable:single_precision_range")
            continue
        if rel > 1e-7:
            # single precision: an affine conversion near its offset cancels leading digits, the
            # error is relative to the amounts before the cancellation
            scale = max(abs(float(want)), abs(float(vals[j])) if j != pos else abs(float(xv)), 1e-30)
            ok_j = abs(float(got[j]) - float(want)) <= 4e-6 * max(scale, 300.0)
            if not ok_j:
                bound = _f32_bound(db, qt, xu if j == pos else fa.GetUnit(), want_unit, xv if j == pos else vals[j], want)
                if bound is None or abs(float(got[j]) - float(want)) <= bound:
                    sim.count("oracle_inapplicable:single_precision_cancellation")
                    continue
        else:
            ok_j = M.close(got[j], want, rel)
        if not sim.check(
            ok_j,
            sid,
            dict(sig, case="changed_position" if j == pos else "other_position"),
            op["i"],
            lambda: "position %d: got %r, expected %r (orig %r %s -> %s)" % (j, got[j], want, vals, fa.GetUnit(), want_unit),
        ):
            return


def _changing_index_wellformed(fa, idx, x):
    import barril.units as u

    try:
        n = fa.dimension
        vals = list(fa.GetValues())
        if not (isinstance(idx, int) and -n <= idx < n and len(vals) == n and _flat(vals)):
            return False
        if fa.GetQuantity().IsDerived() or not M.is_simple_known(fa):
            return False
        qt = fa.GetQuantityType()
        if isinstance(x, u.Scalar):
            return (not x.GetQuantity().IsDerived()) and x.GetQuantityType() == qt and _flat([x.GetValue()])
        if isinstance(x, tuple):
            return len(x) == 2 and _flat([x[0]]) and isinstance(x[1], str) and M.unit_type(x[1]) == qt
        return _flat([x])
    except Exception:
        return False


def o_index_as_scalar(sim, op, spec, out):
    import barril.units as u

    fa = sim.last_target
    if not isinstance(fa, u.FixedArray):
        return
    idx = sim.last_args[0]
    q = sim.last_args[1] if len(sim.last_args) > 1 else fa.GetQuantity()
    sid = spec["id"]
    if out[0] == "exc":
        try:
            wf = (
                isinstance(idx, int)
                and -fa.dimension <= idx < fa.dimension
                and _flat(list(fa.GetValues()))
                and M.is_simple_known(fa)
                and not q.IsDerived()
                and q.GetQuantityType() == fa.GetQuantityType()
            )
        except Exception:
            wf = False
        if wf and not isinstance(out[1], ArithmeticError):
            sim.check(False, sid, {"case": "valid_request_raises", "exc": type(out[1]).__name__}, op["i"], "IndexAsScalar(%r) on dimension %r raised %r" % (idx, fa.dimension, out[1]))
        return
    if out[0] != "ok":
        return
    res = out[1]
    if not sim.check(isinstance(res, u.Scalar), sid, {"case": "not_scalar"}, op["i"], "IndexAsScalar returned %r" % (res,)):
        return
    if fa.GetQuantity().IsDerived() or q.IsDerived() or not M.is_simple_known(fa) or q.GetQuantityType() != fa.GetQuantityType():
        return
    sim.check(res.GetUnit() == q.GetUnit(), sid, {"case": "unit"}, op["i"], "unit %r expected %r" % (res.GetUnit(), q.GetUnit()))
    vals = list(fa.GetValues())
    if not _flat(vals):
        sim.count("oracle_inapplicable:non_flat_container")
        return
    try:
        want = _db().Convert(fa.GetQuantityType(), fa.GetUnit(), q.GetUnit(), float(vals[idx]))
    except ArithmeticError:
        sim.count("oracle_inapplicable:conversion_raises")
        return
    if not _representable(want, _rel(vals)) or not _representable(vals[idx], _rel(vals)) or not _representable_via_base(_db(), fa.GetQuantityType(), fa.GetUnit(), vals[idx], _rel(vals)):
        sim.count("oracle_inapplicable:single_precision_range")
        return
    if _rel(vals) > 1e-7:
        ok_amount = abs(float(res.GetValue()) - float(want)) <= 4e-6 * max(abs(float(want)), abs(float(vals[idx])), 300.0)
        if not ok_amount:
            bound = _f32_bound(_db(), fa.GetQuantityType(), fa.GetUnit(), q.GetUnit(), vals[idx], want)
            if bound is None or abs(float(res.GetValue()) - float(want)) <= bound:
                sim.count("oracle_inapplicable:single_precision_cancellation")
                return
    else:
        ok_amount = M.close(res.GetValue(), want, _rel(vals))
    sim.check(ok_amount, sid, {"case": "amount"}, op["i"], lambda: "got %r expected %r" % (res.GetValue(), want))


def o_curve_set(sim, op, spec, out):
    """An accepted setter changes exactly the addressed side; a rejected one changes nothing.
    (pre-state captured by CurveWatch.before)"""
    watch = sim.user.get("_curve_pre")
    if not watch or out[0] == "intr":
        return
    cv, pre_img, pre_dom, new = watch
    side = spec["side"]
    sid = spec["id"]
    img, dom = cv.GetImage(), cv.GetDomain()
    if spec.get("unsized"):
        # an Array whose values have no length (0-d ndarray, iterator) cannot be the image / domain
        # of a curve of n points: the call must fail and the curve stay as it was
        if sim.check(out[0] == "exc", sid, {"case": "unsized_accepted", "side": side}, op["i"], "setter with values without a length returned"):
            sim.check(img is pre_img and dom is pre_dom, sid, {"case": "rejected_but_changed", "side": side}, op["i"], "rejected setter (values without a length) changed the curve")
        return
    bad = len(new.GetValues()) != len((pre_dom if side == "image" else pre_img).GetValues())
    if bad:
        if not sim.check(out[0] == "exc" and isinstance(out[1], ValueError), sid, {"case": "mismatch_accepted", "side": side}, op["i"], "setter with wrong length: %s %r" % (out[0], out[1])):
            return
    if out[0] == "exc":
        sim.check(img is pre_img and dom is pre_dom, sid, {"case": "rejected_but_changed", "side": side}, op["i"], "rejected setter changed the curve")
    else:
        if side == "image":
            ok = img is new and dom is pre_dom
        else:
            ok = dom is new and img is pre_img
        sim.check(ok, sid, {"case": "accepted_wrong_side", "side": side}, op["i"], "accepted setter did not change exactly the %s" % side)


def o_lifetime(sim, op, spec, out):
    """The answer to a closed call does not depend on which objects died before it was made."""
    if out[0] != "ok" or not isinstance(out[1], dict):
        return
    a, b = out[1]["kept"], out[1]["dropped"]
    items = op["a"][0]["J"]
    for n, (x, y) in enumerate(zip(a, b)):
        sim.oracle_checks += 1
        if x != y:
            it = items[n]
            sim.violation(
                spec["id"],
                {"case": "differs_when_earlier_objects_died", "call": it.get("m") or it.get("fn"), "kept": x[0], "dropped": y[0]},
                op["i"],
                "item %d of %s (%r): with all objects alive %r, with short-lived objects %r" % (n, op["k"], it, x, y),
            )
            return


def o_target_unchanged(sim, op, spec, out):
    pass  # covered by the V-sweep which runs in every profile that uses this spec


ORACLES = {
    "same_as": o_same_as,
    "q_request": o_q_request,
    "is_arg": o_is_arg,
    "is_target": o_is_target,
    "eq_arg": o_eq_arg,
    "eq_target": o_eq_target,
    "raises": o_raises,
    "raises_any": o_raises_any,
    "reject": o_reject,
    "reject_db2": o_reject_db2,
    "twice_same": o_twice_same,
    "changing_index": o_changing_index,
    "index_as_scalar": o_index_as_scalar,
    "curve_set": o_curve_set,
    "lifetime": o_lifetime,
    "target_unchanged": o_target_unchanged,
}


class PropFilter(dict):
    """Only the specs of the property being checked are evaluated."""

    def __init__(self, prop):
        self.prop = prop

        def make(fn):
            def run(sim, op, spec, out):
                if spec.get("p") == prop:
                    fn(sim, op, spec, out)

            return run

        super().__init__({k: make(v) for k, v in ORACLES.items()})
