"""
Worlds (what the shared database is) and the per-run basis drawn from it.

W-POSC     default singleton as shipped (1548 units / 191 types / 328 categories)
W-POSC-NC  POSC without categories (fresh database pushed inside the run child)
W-SIMPLE   FillSimple (fresh database pushed inside the run child)
W-SYN      built from nothing by the registrar client's own reg.* ops (fresh database pushed)

World facts are read once from the pristine image through public getters (lists are copied).
"""
import math

_INFO = {}

# quantity types that keep operands interacting and cover scale-only, affine and rational units
PREFERRED = [
    "length",
    "time",
    "mass",
    "temperature",
    "pressure",
    "volume",
    "area",
    "velocity",
    "density",
    "force",
    "frequency",
    "volume flow rate",
    "dimensionless",
    "power",
    "moment of force",
    "per length",
    "per time",
    "specific volume",
    "plane angle",
]


def posc_info():
    """{qt: {"units": [...], "cats": [...]}} of the current singleton (call on the pristine image)."""
    if "posc" in _INFO:
        return _INFO["posc"]
    from barril.units.unit_database import UnitDatabase

    db = UnitDatabase.GetSingleton()
    info = {}
    for qt in db.GetQuantityTypes():
        info[qt] = {"units": list(db.GetUnits(qt)), "cats": [], "dc_units": []}
        for un in info[qt]["units"]:
            dc = db.GetDefaultCategory(un)
            if dc and dc != qt:
                info[qt]["dc_units"].append(un)  # units that name their own default category
    for c in db.IterCategories():
        info[db.GetCategoryQuantityType(c)]["cats"].append(c)
    _INFO["posc"] = info
    return info


def legacy_spellings(info):
    """[(legacy spelling, current unit, quantity type)] for every table unit that has one; each
    spelling is kept only if rewriting it (model.current_spelling) gives back the table unit."""
    if "legacy" in _INFO:
        return _INFO["legacy"]
    from .model import LEGACY_TO_CURRENT, current_spelling

    out = []
    for qt in sorted(info):
        for un in info[qt]["units"]:
            for legacy, current in LEGACY_TO_CURRENT:
                if current in un:
                    cand = un.replace(current, legacy, 1)
                    if cand != un and current_spelling(cand) == un and cand not in info[qt]["units"]:
                        out.append((cand, un, qt))
    _INFO["legacy"] = sorted(set(out))
    return _INFO["legacy"]


def simple_info():
    return {
        "length": {"units": ["m", "mm", "cm", "km"], "cats": ["length"]},
        "time": {"units": ["s", "min", "h", "d"], "cats": ["time"]},
    }


def draw_basis(rng, info, n_types=(3, 6), n_units=(2, 4), n_cats=(1, 3), exotic=0.15):
    """[(qt, [units], [cats])]: a small basis so that operands actually interact."""
    usable = [q for q in sorted(info) if len(info[q]["units"]) >= 2 and info[q]["cats"] and q != "Unknown"]
    pref = [q for q in PREFERRED if q in usable]
    k = rng.randint(*n_types)
    chosen = []
    while len(chosen) < min(k, len(usable)):
        q = rng.choice(usable) if (rng.random() < exotic or not pref) else rng.choice(pref)
        if q not in chosen:
            chosen.append(q)
    basis = []
    for q in chosen:
        units = info[q]["units"]
        nu = min(len(units), rng.randint(*n_units))
        us = [units[0]] if rng.random() < 0.7 else []
        if info[q].get("dc_units") and rng.random() < 0.5:
            us.append(rng.choice(info[q]["dc_units"]))
        while len(us) < nu:
            u = rng.choice(units)
            if u not in us:
                us.append(u)
        cats = info[q]["cats"]
        nc = min(len(cats), rng.randint(*n_cats))
        cs = [q] if (q in cats and rng.random() < 0.7) else []
        while len(cs) < nc:
            c = rng.choice(cats)
            if c not in cs:
                cs.append(c)
        basis.append((q, us, cs))
    return basis


SMALL = [0.0, 1.0, 2.0, 3.0, 5.0, 10.0, -1.0, -2.5, 0.5, 0.25, 100.0, 7.5, 12.0, 1e-3]
BIG = [1e6, -1e6, 1e12, 1e-9, 123456.789, -3.25e7, 2.5e-5, 6.02e23]


def draw_value(rng, allow_zero=True):
    r = rng.random()
    if r < 0.55:
        v = rng.choice(SMALL)
    elif r < 0.8:
        v = round(rng.uniform(-50, 50), rng.choice((0, 1, 2, 3)))
    elif r < 0.92:
        v = rng.choice(BIG)
    else:
        v = float(rng.randint(-1000, 1000))
    if not allow_zero and v == 0.0:
        v = 1.0
    if rng.random() < 0.12 and v == int(v) and abs(v) < 1e9:
        return int(v)
    return float(v)


def draw_values(rng, n):
    return [draw_value(rng) for _ in range(n)]


def draw_container(rng, n, kinds=("L", "T", "N", "TT"), weights=(4, 3, 3, 1)):
    """Encoded container of n numbers: list / tuple / ndarray / tuple-of-tuples."""
    kind = rng.choices(kinds, weights=weights[: len(kinds)])[0]
    vals = draw_values(rng, n)
    if kind == "L":
        return {"L": vals}
    if kind == "T":
        return {"T": vals}
    if kind == "N":
        dt = rng.choice(["float64", "float64", "float64", "float32", "int64"])
        if dt == "int64":
            vals = [int(v) if abs(v) < 1e15 and math.isfinite(v) else 1 for v in vals]
        elif dt == "float32":
            vals = [float(v) if abs(v) < 1e30 else 1.0 for v in vals]
        return {"N": vals, "dt": dt}
    # tuple of tuples (points)
    return {kind_tt(): [{"T": [v, draw_value(rng)]} for v in vals]}


def kind_tt():
    return "T"
