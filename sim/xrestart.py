"""
F5 in its strongest form: the successor is a FRESH INTERPRETER (not a fork of the pristine image)
started under another PYTHONHASHSEED, so that nothing volatile can survive by accident - not the
intern table, not a memoised hash, not a lazily filled slot.  Only the pickle bytes cross over.

stdin : pickle of {"prop", "cfg", "dyn_regs": [ops], "items": [(step, bytes, fingerprint before)]}
stdout: one JSON line {"checks": n, "violations": [{"oracle", "sig", "step", "detail"}]}

Run by the C07 profile for a seeded subset of the runs that contain a restart.
"""
import json
import os
import pickle
import sys

if __name__ == "__main__":
    sys.path.insert(0, os.path.dirname(os.path.dirname(os.path.abspath(__file__))))


def main():
    from sim import boot

    boot.import_barril()
    state = pickle.loads(sys.stdin.buffer.read())
    import barril.units as u
    from sim import fp as F
    from sim.main import load_profile
    from sim.ops import Codec, call_op

    profile = load_profile(state["prop"])
    profile.setup_world(state["cfg"])
    for rop in state["dyn_regs"]:
        thunk, _t, _a, _kw = call_op(Codec({}), rop)
        thunk()
    out = {"checks": 0, "violations": []}

    def bad(oracle, sig, step, detail):
        out["violations"].append({"oracle": oracle, "sig": sig, "step": step, "detail": detail[:500]})

    # 1. the successor is in use before it loads anything: it requests the simple quantities that
    #    the pickles are about to resolve to, and takes their hashes (sets, dict keys)
    warm = []
    for step, blob, before in state["items"]:
        qf = None
        if before and before[0] == "Qfull":
            qf = before[1]
        elif before and before[0] == "S":
            qf = before[1]
        elif before and before[0] == "FA":
            qf = before[2]
        if not qf or qf[4]:  # derived: requested through its map below
            continue
        category, _qt, unit, caption = qf[0], qf[1], qf[2], qf[3]
        try:
            q = u.ObtainQuantity(unit, category, caption) if caption else u.ObtainQuantity(unit, category)
        except Exception:
            continue
        warm.append((step, q, hash(q), F.qfp_full(q)))
    # 2. load
    loaded = []
    for step, blob, before in state["items"]:
        try:
            v = pickle.loads(blob)
        except Exception as e:
            bad("C07.restart_equal", {"case": "unpickle_failed_in_fresh_interpreter", "class": "?"}, step, "unpickling in a fresh interpreter raised %r" % (e,))
            continue
        loaded.append((step, v, before))
    # 3. nothing that was alive before the load has changed (hash included)
    for step, q, h, full in warm:
        out["checks"] += 1
        try:
            now_h, now_full = hash(q), F.qfp_full(q)
        except Exception as e:
            now_h, now_full = None, ["getter_raised", type(e).__name__]
        if now_full != full:
            bad("C07.immutable", {"field": "getter", "after": "load_in_fresh_interpreter", "fault": "F5.restart"}, step, "a quantity alive before pickle.loads changed: %r -> %r" % (full, now_full))
        elif now_h != h:
            bad("C07.immutable", {"field": "hash", "after": "load_in_fresh_interpreter", "fault": "F5.restart"}, step, "the hash of a quantity alive before pickle.loads changed (%r)" % (full[:4],))
    # 4. what was loaded is what was saved, and is a sound value among the quantities of this process
    quantities = [q for _s, q, _h, _f in warm]
    for step, v, before in loaded:
        out["checks"] += 1
        if isinstance(v, u.Quantity):
            now = ["Qfull", F.qfp_full(v)]
            q = v
        else:
            now = F.fp(v)
            q = v.GetQuantity()
        a, b = before, now
        if before and before[0] in ("S", "FA"):
            a, b = (before[1], now[1]) if before[0] == "S" else (before[2], now[2])
        if a != b:
            bad("C07.restart_equal", {"case": "quantity_differs_after_restart", "class": type(v).__name__, "fresh_interpreter": True}, step, "before %r, after a restart into a fresh interpreter %r" % (a, b))
        quantities.append(q)
    for n, qa in enumerate(quantities):
        for qb in quantities[n + 1 :]:
            out["checks"] += 1
            try:
                eq = qa == qb
                if eq and hash(qa) != hash(qb):
                    bad("C07.intern_eq_hash", {"case": "equal_quantities_hash_differently", "fresh_interpreter": True}, -1, "after loading into a fresh interpreter %r == %r but their hashes differ" % (F.qfp(qa), F.qfp(qb)))
                if F.qfp(qa)[5] == F.qfp(qb)[5] and (F.qfp(qa)[3] or "") == (F.qfp(qb)[3] or "") and not eq:
                    bad("C07.intern_eq_hash", {"case": "equal_request_unequal_object", "fresh_interpreter": True}, -1, "after loading into a fresh interpreter %r != %r" % (F.qfp(qa), F.qfp(qb)))
            except Exception as e:
                bad("C07.intern_eq_hash", {"case": "comparison_raises", "fresh_interpreter": True}, -1, repr(e))
    sys.stdout.write("\nXRESTART-RESULT " + json.dumps(out) + "\n")


if __name__ == "__main__":
    main()
