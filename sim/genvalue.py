"""
Online generator for the "value world" (profiles C05, C07, C11, C13): clients that build pools of
Quantity / Scalar / Array / FixedArray / FractionScalar / Curve objects on one shared database and
keep operating on them, with rejected calls, interrupts and restarts injected at seeded points.

Everything is drawn from the single random.Random of the run.  The generator may look at the real
pool objects through pure getters; replay never calls it.
"""
from . import model as M
from . import world as W
from .ops import enc_value, ref

BINOPS = ["add", "sub", "mul", "truediv", "floordiv"]
RELOPS = ["lt", "le", "gt", "ge"]

LEGACY = [("1000ft3", "Mcf"), ("1000m3", "Mm3"), ("M(ft3)", "MMcf"), ("M(m3)", "MMm3"), ("lbmole", "lbmol"), ("gmole", "gmol")]

CLIENT_FAMILIES = {
    "calculator": ["mk", "ar", "ar", "cv", "cmp"],
    "inspector": ["lk", "fmt", "mk.q", "cmp", "cp"],
    "validator": ["val", "val", "mk", "fmt"],
    "persister": ["cp", "cp", "mk", "cv", "gc"],
    "curator": ["curve", "fixed", "fixed", "mk", "gc"],
    "saboteur": ["flt", "flt", "flt", "flt", "flt", "flt", "gc"],
    "registrar": ["reg"],
}


def _barril():
    import barril.units as u
    from barril.curve.curve import Curve

    return u, Curve


class ValueGen:
    def __init__(self, rng, cfg, info):
        self.rng = rng
        self.cfg = cfg
        self.info = info  # world facts {qt: {"units", "cats"}}
        self.basis = [tuple(b) for b in cfg["basis"]]
        self.i = cfg.get("first_step", 0)
        self.n = 0
        self.requests = {}  # canonical request -> step (C07 intern identity)
        self.clients = cfg["clients"]
        self.cweights = cfg["client_weights"]
        self.fam_w = cfg.get("family_weights", {})
        self.limited = cfg.get("limited_cats", [])  # [(category, qt)] registered at set-up
        self.restarts_left = cfg.get("restarts", 0)
        self.restart_at = cfg.get("restart_at", [])
        self.dyn_cats = []  # [(category, qt)] requested by the registrar client during the run
        self.lookahead_ops = {}
        self.swept = False
        self.swept_ro = False
        self.bursted = False
        self.dyn_units = cfg.get("dyn_units", [])  # units a plugin registers at some point of the run
        self.reg_forms = cfg.get("reg_forms")
        self.legacy = W.legacy_spellings(info) if cfg["world"] == "W-POSC" else []
        self.legacy_by_qt = {}
        for leg, _cur, q in self.legacy:
            self.legacy_by_qt.setdefault(q, []).append(leg)

    # --------------------------------------------------------------- state transfer (restart)
    def __getstate__(self):
        return self.__dict__.copy()

    # --------------------------------------------------------------- pickers
    def qt(self):
        return self.rng.choice(self.basis)

    def unit_of(self, b, other_than=None):
        us = [x for x in b[1] if x != other_than] or list(b[1])
        r = self.rng.random()
        if self.dyn_units and r > 0.8:
            db = _db_now()
            live = [d["sym"] for d in self.dyn_units if d["qt"] == b[0] and db.GetQuantityType(d["sym"]) == b[0]]
            if live:
                return self.rng.choice(live)
        if r < 0.1:
            return self.rng.choice(self.info[b[0]]["units"])
        if r < 0.16 and self.legacy_by_qt.get(b[0]):
            # a legacy spelling of a unit of this type: accepted wherever a unit string is taken
            return self.rng.choice(self.legacy_by_qt[b[0]])
        return self.rng.choice(us)

    def g_peer(self, sim, sym):
        """An operation that has to call the caller-supplied conversion functions of unit `sym`."""
        rng = self.rng
        u, _ = _barril()
        qt = [d["qt"] for d in self.dyn_units if d["sym"] == sym][0]
        b = self.basis_for_qt(qt)
        if b is None:
            return None
        mine = sim.live(lambda v: isinstance(v, (u.Scalar, u.Array)) and M.is_simple_known(v) and v.GetUnit() == sym)
        if not mine or rng.random() < 0.2:
            r = rng.random()
            if r < 0.4:
                return self.op("mk.Scalar.vuc", "Scalar", "()", [self.value(), sym, self.cat_of(b)])
            if r < 0.8:
                return self.op("mk.Array.Vu", "Array", "()", [self.container(rng.choice([2, 3, 4])), sym])
            return self.op("mk.FixedArray.dVu", "FixedArray", "()", [3, self.container(3, kinds=("L", "T", "N")), sym])
        x = rng.choice(mine)
        other = rng.choice([w for w in b[1] if w != sym] or list(b[1]))
        arm = rng.random() < 0.6
        form = rng.choice(["get", "get", "copy", "add", "radd", "dbconv", "changing", "valid", "fmt"])
        isarr = isinstance(x[1], u.Array)
        if form == "get":
            o = self.op("cv.GetValues" if isarr else "cv.GetValue", ref(x[0]), "GetValues" if isarr else "GetValue", [other])
        elif form == "copy":
            o = self.op("cv.CreateCopy.unit", ref(x[0]), "CreateCopy", [], kw={"unit": other})
        elif form in ("add", "radd"):
            fam = u.Array if isarr else u.Scalar
            ps = sim.live(lambda v: isinstance(v, fam) and (isarr or not isinstance(v, u.Array)) and M.is_simple_known(v) and v.GetQuantityType() == qt and v.GetUnit() != sym and (not isarr or _len(v) == _len(x[1])))
            if not ps:
                return self.op("mk.Array.Vu", "Array", "()", [self.container(max(_len(x[1]), 0)), other]) if isarr else self.op("mk.Scalar.vu", "Scalar", "()", [self.value(), other])
            y = rng.choice(ps)
            opn = rng.choice(["add", "sub"])
            o = self.op("ar.obj." + opn, "py", opn, [ref(x[0]), ref(y[0])] if form == "add" else [ref(y[0]), ref(x[0])])
        elif form == "dbconv":
            o = self.op("cv.db.Convert.container", "db", "Convert", [qt, sym, other, self.container(rng.choice([2, 3]), kinds=("L", "T", "N"))] if rng.random() < 0.5 else [qt, other, sym, self.container(rng.choice([2, 3]), kinds=("L", "T", "N"))])
        elif form == "changing":
            fas = [m for m in mine if isinstance(m[1], u.FixedArray)]
            if not fas:
                return self.op("mk.FixedArray.dVu", "FixedArray", "()", [3, self.container(3, kinds=("L", "T", "N")), sym])
            fa = rng.choice(fas)
            o = self.op("fixed.ChangingIndex", ref(fa[0]), "ChangingIndex", [rng.randrange(0, fa[1].dimension), {"T": [self.value(), other]}], kw={"use_value_unit": rng.choice([True, False])})
            o["x"] = [{"o": "changing_index", "p": "C11", "id": "C11.changing_index"}]
        elif form == "valid":
            o = self.op("val.CheckValidity", ref(x[0]), "CheckValidity", [])
        else:
            if isarr:
                o = self.op("fmt.str", "py", "str", [ref(x[0])])
            else:
                o = self.op("fmt.GetFormatted.unit", ref(x[0]), "GetFormatted", [other])
        if arm:
            o["peer"] = rng.choice([1, 1, 2, 2, 3, 4])
            o["f"] = "F2.peer_exception"
        return o

    def sweep_probes(self, op):
        """Requests issued after an interrupted registration, about the names it mentions.  Their
        oracles decide from what the database reports at that moment what the answer has to be."""
        probes = []
        name = op["a"][0]
        if op["k"].startswith("reg.AddCategory"):
            c = name
            probes.append(self.op("mk.q.nonec", "units", "ObtainQuantity", [None, c], x=[{"o": "q_request", "p": "C07", "id": "C07.request_honoured", "form": "nonec"}]))
            for b in self.basis[:3]:
                un = b[1][0]
                probes.append(self.op("mk.Scalar.vuc", "Scalar", "()", [1.0, un, c], x=[{"o": "reject", "p": "C05", "id": "C05.loud", "why": "catunit", "category": c, "unit": un}]))
                probes.append(self.op("mk.q.uc", "units", "ObtainQuantity", [un, c], x=[{"o": "reject", "p": "C05", "id": "C05.loud", "why": "catunit", "category": c, "unit": un}, {"o": "q_request", "p": "C07", "id": "C07.request_honoured", "form": "uc"}]))
        else:
            sym = op["a"][2]
            qt = op["a"][0]
            probes.append(self.op("mk.q.u", "units", "ObtainQuantity", [sym], x=[{"o": "q_request", "p": "C07", "id": "C07.request_honoured", "form": "u"}]))
            for b in self.basis[:3]:
                c = b[2][0]
                probes.append(self.op("mk.Scalar.vuc", "Scalar", "()", [1.0, sym, c], x=[{"o": "reject", "p": "C05", "id": "C05.loud", "why": "catunit", "category": c, "unit": sym}]))
        for p in probes:
            p["c"] = "inspector"
        return probes

    def peer_specs(self, d):
        if d.get("callable") == "recip":
            # a reciprocal unit (period vs frequency): the conversion raises ZeroDivisionError for 0
            return [{"call": "recip:%r" % d["k"]}, {"call": "recip:%r" % d["k"]}]
        return [{"call": "div:%r" % d["k"]}, {"call": "mul:%r" % d["k"]}]

    def _in_limited_category(self, sim, op):
        t = op.get("t")
        if not (isinstance(t, dict) and "ref" in t) or not self.limited:
            return False
        try:
            st, v = sim.pool[t["ref"]]
            return st == "ok" and v.GetCategory() in [c for c, _q in self.limited]
        except Exception:
            return False

    def peer_units_live(self):
        db = _db_now()
        return [d["sym"] for d in self.dyn_units if d.get("callable") and db.GetQuantityType(d["sym"]) == d["qt"]]

    def cat_of(self, b):
        cs = list(b[2]) + [c for c, q in self.limited if q == b[0]]
        if self.dyn_cats:
            db = _db_now()
            cs += [c for c, q in self.dyn_cats if db.IsValidCategory(c) and db.GetCategoryQuantityType(c) == b[0]]
        return self.rng.choice(cs)

    def basis_for_qt(self, qt):
        for b in self.basis:
            if b[0] == qt:
                return b
        if qt in self.info and self.info[qt]["units"] and self.info[qt]["cats"]:
            return (qt, self.info[qt]["units"][:4], self.info[qt]["cats"][:2])
        return None

    def unit_same_type(self, obj):
        """A unit of obj's quantity type (simple quantities), else None."""
        q = M.quantity_of(obj)
        if q is None or q.IsDerived():
            return None
        b = self.basis_for_qt(q.GetQuantityType())
        if b is None:
            return None
        return self.unit_of(b, other_than=q.GetUnit() if self.rng.random() < 0.8 else None)

    def foreign_unit_for(self, obj):
        q = M.quantity_of(obj)
        qt = q.GetQuantityType() if q is not None else None
        cands = [b for b in self.basis if b[0] != qt]
        if self.legacy and self.rng.random() < 0.2:
            # a unit of another quantity type written in a legacy spelling
            far = [leg for leg, _cur, q in self.legacy if q != qt]
            if far:
                return self.rng.choice(far)
        if not cands:
            return None
        return self.unit_of(self.rng.choice(cands))

    def pick(self, sim, pred):
        c = sim.live(pred)
        if not c:
            return None
        if self.rng.random() < 0.5:
            c = c[-8:]  # bias to recent objects: derivation chains
        return self.rng.choice(c)

    def scal(self, sim):
        u, _ = _barril()
        return self.pick(sim, lambda v: isinstance(v, u.Scalar))

    def arr(self, sim, fixed=None):
        u, _ = _barril()
        if fixed is True:
            return self.pick(sim, lambda v: isinstance(v, u.FixedArray))
        if fixed is False:
            return self.pick(sim, lambda v: isinstance(v, u.Array) and not isinstance(v, u.FixedArray))
        return self.pick(sim, lambda v: isinstance(v, u.Array))

    def frac(self, sim):
        u, _ = _barril()
        return self.pick(sim, lambda v: isinstance(v, u.FractionScalar))

    def quant(self, sim):
        u, _ = _barril()
        return self.pick(sim, lambda v: isinstance(v, u.Quantity))

    def valobj(self, sim):
        u, _ = _barril()
        return self.pick(sim, lambda v: isinstance(v, (u.Scalar, u.Array, u.FractionScalar)))

    def anyobj(self, sim):
        u, Curve = _barril()
        return self.pick(sim, lambda v: isinstance(v, (u.Scalar, u.Array, u.FractionScalar, u.Quantity, Curve)))

    def value(self):
        return W.draw_value(self.rng)

    def container(self, n=None, kinds=("L", "T", "N", "TT")):
        if n is None:
            n = self.rng.choice([0, 1, 2, 2, 3, 3, 4, 5])
        return W.draw_container(self.rng, n, kinds=kinds)

    def fraction_value(self):
        r = self.rng
        number = float(r.choice([0, 1, 2, 3, 5, 10, 12.5]))
        if r.random() < 0.3:
            return {"FV": [number, None]}
        den = r.choice([2, 3, 4, 8, 16])
        return {"FV": [number, [r.randint(1, den - 1), den]]}

    def maybe_legacy(self, unit):
        return unit

    # --------------------------------------------------------------- op construction
    def op(self, k, t, m, a=(), kw=None, f=None, x=None, c=None):
        d = {"k": k, "t": t, "m": m, "a": list(a)}
        if kw:
            d["kw"] = kw
        if f:
            d["f"] = f
        if x:
            d["x"] = x
        return d

    # --------------------------------------------------------------- main entry
    def __call__(self, sim):
        if self.n >= self.cfg["n_steps"]:
            return None
        self.n += 1
        if self.restart_at and self.n == self.restart_at[0]:
            self.restart_at = self.restart_at[1:]
            self.requests = {}  # object identity is a per-process notion
            op = {"k": "flt.restart", "t": "py", "m": "identity", "a": [None], "f": "F5.restart", "c": "persister"}
            op["i"] = self.i
            self.i += 1
            return op
        rng = self.rng
        if getattr(self, "plan", None) and (getattr(self, "plan_sticky", False) or rng.random() < 0.6):
            op = self.plan.pop(0)
            if not self.plan:
                self.plan_sticky = False
            for a in list(op["a"]) + [sp.get("x") for sp in op.get("x", []) if isinstance(sp, dict)] + [sp.get("y") for sp in op.get("x", []) if isinstance(sp, dict)]:
                if isinstance(a, dict) and isinstance(a.get("ref"), str) and a["ref"].startswith("PLANREL"):
                    a["ref"] = self.plan_rel_base + int(a["ref"][7:])
            for a in op["a"]:
                if isinstance(a, dict) and a.get("ref") == "PLAN0":
                    a["ref"] = self.plan_base
            op["i"] = self.i
            self.i += 1
            return op
        if self.dyn_units and self.cfg.get("peer_rate", 0) > 0:
            # F2 workload: get the caller-supplied unit registered early, then keep converting
            # objects expressed in it (some of those calls have the n-th peer invocation fail)
            live = self.peer_units_live()
            op = None
            if not live and self.n <= 3 and any(d.get("callable") for d in self.dyn_units):
                d = [x for x in self.dyn_units if x.get("callable")][0]
                if _db_now().GetQuantityType(d["sym"]) is None:
                    self.requests = {}
                    op = self.op("reg.AddUnit.new_callable", "db", "AddUnit", [d["qt"], d["name"], d["sym"]] + self.peer_specs(d))
                    op["c"] = "registrar"
            elif live and rng.random() < 2.0 * self.cfg["peer_rate"]:
                op = self.g_peer(sim, rng.choice(live))
                if op is not None:
                    op["c"] = "calculator"
            if op is not None:
                op["i"] = self.i
                self.i += 1
                return op
        for _attempt in range(40):
            client = rng.choices(self.clients, weights=self.cweights)[0]
            fam = rng.choice(CLIENT_FAMILIES[client])
            w = self.fam_w.get(fam.split(".")[0], 1.0)
            if w <= 0 or (w < 1.0 and rng.random() > w):
                continue
            op = getattr(self, "g_" + fam.replace(".", "_"))(sim)
            if op is None:
                continue
            # F7: turn a read-only workload op into an interrupted one
            if (
                not op.get("f")
                and not self.swept_ro
                and self.cfg.get("val_sweep")
                and op["k"] in ("val.IsValid", "val.CheckValidity")
                and self._in_limited_category(sim, op)
            ):
                # the same sweep, aimed at the hand-written min/max scan of a limited category
                self.swept_ro = True
                op["sweep"] = "retry"
                op["probes"] = [{k: v for k, v in op.items() if k not in ("sweep", "i", "x")}]
            elif (
                not op.get("f")
                and not self.swept_ro
                and self.cfg.get("ro_sweep_step") is not None
                and self.n >= self.cfg["ro_sweep_step"]
                and op["k"].startswith(("val.", "cv.", "ar.", "fmt.", "lk.", "cmp.", "fixed.", "mk."))
                and not op["k"].startswith("lk.q.SetUnknownCaption")
            ):
                # interrupt sweep over a read-only call: at every line position the call is cut short
                # and issued again in a forked grandchild; the answer must be the undisturbed one
                self.swept_ro = True
                op["sweep"] = "retry"
                again = {k: v for k, v in op.items() if k not in ("sweep", "i", "x")}
                op["probes"] = [again]
            elif (
                not op.get("f")
                and self.cfg.get("intr_rate", 0) > 0
                and rng.random() < self.cfg["intr_rate"]
                and not op["k"].startswith(("curve.set", "flt.", "caller.", "reg.", "gc."))
            ):
                op["intr"] = int(min(400, max(1, rng.expovariate(1.0 / self.cfg.get("intr_mean", 40)))))
                op["f"] = "F7.interrupt"
                if rng.random() < 0.5 and not getattr(self, "plan", None):
                    # what a user does after Ctrl-C: the same call again
                    again = {k: v for k, v in op.items() if k not in ("intr", "f", "i")}
                    again["c"] = client
                    self.plan = [again]
            elif (
                op["k"] in ("reg.AddCategory.override", "reg.AddCategory.retype", "reg.AddUnit.new", "reg.AddUnit.new_callable")
                and self.cfg.get("sweep_rate", 0) > 0
                and not self.swept
                and rng.random() < self.cfg["sweep_rate"]
            ):
                # interrupt sweep: every line position of this registration is tried in a forked
                # grandchild, followed by probe requests about the names it mentions
                self.swept = True
                op["sweep"] = True
                op["probes"] = self.sweep_probes(op)
                if op["k"].startswith("reg.AddCategory") and not getattr(self, "plan", None):
                    # the category is in use when it is replaced: its quantities are interned in
                    # the units the probes will ask for again
                    c = op["a"][0]
                    try:
                        qt_now = _db_now().GetCategoryQuantityType(c)
                    except Exception:
                        qt_now = None
                    bb = self.basis_for_qt(qt_now) if qt_now else None
                    if bb is not None:
                        warm = self.op("mk.Scalar.vuc", "Scalar", "()", [1.0, bb[1][0], c])
                        warm["c"] = client
                        op["c"] = client
                        op["probes"] = [dict(self.op("mk.Scalar.vuc", "Scalar", "()", [1.0, bb[1][0], c], x=[{"o": "reject", "p": "C05", "id": "C05.loud", "why": "catunit", "category": c, "unit": bb[1][0]}]), c="inspector")] + op["probes"]
                        self.plan = [op]
                        self.plan_sticky = True
                        op = warm
            elif (
                op["k"] in ("reg.AddCategory.override", "reg.AddCategory.retype", "reg.AddUnit.new", "reg.AddCategory.new", "reg.AddCategory.copy")
                and self.cfg.get("intr_reg_rate", 0) > 0
                and rng.random() < self.cfg["intr_reg_rate"]
            ):
                # F7 inside a registration (Ctrl-C while a plugin loads).  Nothing is demanded about
                # the registration itself (it may have happened or not); what the database reports
                # afterwards is what every later answer must agree with.
                op["intr"] = rng.randint(1, 90)
                op["f"] = "F7.interrupt"
                self.restart_at = []  # durable state of a half-loaded plugin is not modelled
                self.requests = {}
                if op["k"].startswith("reg.AddCategory") and not getattr(self, "plan", None):
                    nonec = self.op("mk.q.nonec", "units", "ObtainQuantity", [None, op["a"][0]], x=[{"o": "q_request", "p": "C07", "id": "C07.request_honoured", "form": "nonec"}])
                    self.plan = [dict(nonec, c="inspector")]
            elif (
                (op.get("f") or "").startswith("F1.")
                and op["k"].startswith("flt.incompatible.")
                and self.cfg.get("intr_rate", 0) > 0
                and rng.random() < 0.5 * self.cfg["intr_rate"]
                and not getattr(self, "plan", None)
            ):
                # a call that has to be refused is itself cut short, then issued again
                again = {k: v for k, v in op.items() if k != "i"}
                again["c"] = client
                self.plan = [again]
                op["intr"] = int(min(300, max(1, rng.expovariate(1.0 / self.cfg.get("intr_mean", 40)))))
            elif (
                not op.get("f")
                and self.cfg.get("peer_rate", 0) > 0
                and not op["k"].startswith(("curve.set", "caller.", "reg.", "gc."))
                and rng.random() < self.cfg["peer_rate"]
                and self.peer_units_live()
            ):
                # F2: the n-th invocation of a caller-supplied conversion function inside this call raises
                op["peer"] = rng.choice([1, 1, 2, 3, 5])
                op["f"] = "F2.peer_exception"
            op["c"] = client
            op["i"] = self.i
            self.i += 1
            return op
        # nothing applicable: fall back to a construction
        op = self.g_mk(sim) or self.mk_scalar(sim)
        op["c"] = "calculator"
        op["i"] = self.i
        self.i += 1
        return op

    # --------------------------------------------------------------- mk: construction
    def g_mk(self, sim):
        r = self.rng.random()
        if r < 0.38:
            return self.mk_scalar(sim)
        if r < 0.6:
            return self.mk_array(sim)
        if r < 0.75:
            return self.mk_fixed(sim)
        if r < 0.85:
            return self.mk_frac(sim)
        if r < 0.97:
            return self.g_mk_q(sim)
        return self.mk_fromscalars(sim)

    def mk_scalar(self, sim):
        rng = self.rng
        b = self.qt()
        u, c, v = self.unit_of(b), self.cat_of(b), self.value()
        form = rng.choice(["vu", "vu", "vuc", "vuc", "cvu", "tup", "c", "cu", "qv", "cwq", "empty"])
        if form == "vu":
            return self.op("mk.Scalar.vu", "Scalar", "()", [v, u])
        if form == "vuc":
            return self.op("mk.Scalar.vuc", "Scalar", "()", [v, u, c])
        if form == "cvu":
            return self.op("mk.Scalar.cvu", "Scalar", "()", [c, v, u])
        if form == "tup":
            return self.op("mk.Scalar.tuple", "Scalar", "()", [{"T": [v, u]}])
        if form == "c":
            return self.op("mk.Scalar.c", "Scalar", "()", [c])
        if form == "cu":
            return self.op("mk.Scalar.cu", "Scalar", "()", [c], kw={"unit": u})
        if form == "empty":
            return self.op("mk.Scalar.empty", "Scalar", "CreateEmptyScalar", [v])
        q = self.quant(sim)
        if q is None:
            return self.op("mk.Scalar.vu", "Scalar", "()", [v, u])
        if form == "qv":
            return self.op("mk.Scalar.qv", "Scalar", "()", [ref(q[0]), v])
        return self.op("mk.Scalar.cwq", "Scalar", "CreateWithQuantity", [ref(q[0]), v])

    def mk_array(self, sim):
        rng = self.rng
        b = self.qt()
        u, c, V = self.unit_of(b), self.cat_of(b), self.container()
        if rng.random() < 0.05 and isinstance(V, dict) and "N" in V and len(V["N"]) >= 2:
            n = len(V["N"])
            V = dict(V, sh=rng.choice([[n, 1], [1, n]]))  # a column / row vector
        form = rng.choice(["Vu", "Vu", "Vuc", "cVu", "qV", "cwq", "empty", "c"])
        if form == "Vu":
            return self.op("mk.Array.Vu", "Array", "()", [V, u])
        if form == "Vuc":
            return self.op("mk.Array.Vuc", "Array", "()", [V, u, c])
        if form == "cVu":
            return self.op("mk.Array.cVu", "Array", "()", [c, V, u])
        if form == "c":
            return self.op("mk.Array.c", "Array", "()", [c])
        if form == "empty":
            if rng.random() < 0.5:
                return self.op("mk.Array.empty", "Array", "CreateEmptyArray", [])
            return self.op("mk.Array.empty", "Array", "CreateEmptyArray", [self.container(kinds=("L", "T", "N"))])
        q = self.quant(sim)
        if q is None:
            return self.op("mk.Array.Vu", "Array", "()", [V, u])
        if form == "qV":
            return self.op("mk.Array.qV", "Array", "()", [ref(q[0]), V])
        return self.op("mk.Array.cwq", "Array", "CreateWithQuantity", [ref(q[0]), V])

    def mk_fixed(self, sim, bad=False):
        rng = self.rng
        b = self.qt()
        d = rng.choice([2, 2, 3, 3, 3, 4, 5])
        u, c = self.unit_of(b), self.cat_of(b)
        V = self.container(d, kinds=("L", "T", "N"))
        form = rng.choice(["dVu", "dVu", "dcVu", "dqV", "dc", "dcu", "cwq", "cwq_d", "cwq_value", "empty", "empty_v"])
        if rng.random() < 0.06 and isinstance(V, dict) and ("L" in V or "T" in V):
            V = {"G": V.get("L", V.get("T"))}  # a generator / iterator: has no len(), can be consumed once
        if form == "dVu":
            return self.op("mk.FixedArray.dVu", "FixedArray", "()", [d, V, u])
        if form == "dcVu":
            return self.op("mk.FixedArray.dcVu", "FixedArray", "()", [d, c, V, u])
        if form == "dc":
            return self.op("mk.FixedArray.dc", "FixedArray", "()", [d, c])
        if form == "dcu":
            return self.op("mk.FixedArray.dcu", "FixedArray", "()", [d, c], kw={"unit": u})
        if form == "empty":
            return self.op("mk.FixedArray.empty", "FixedArray", "CreateEmptyArray", [d])
        if form == "empty_v":
            return self.op("mk.FixedArray.empty_v", "FixedArray", "CreateEmptyArray", [d, V])
        q = self.quant(sim)
        if q is None:
            return self.op("mk.FixedArray.dVu", "FixedArray", "()", [d, V, u])
        if form == "dqV":
            return self.op("mk.FixedArray.dqV", "FixedArray", "()", [d, ref(q[0]), V])
        if form == "cwq":
            return self.op("mk.FixedArray.cwq", "FixedArray", "CreateWithQuantity", [ref(q[0]), V])
        if form == "cwq_d":
            return self.op("mk.FixedArray.cwq_d", "FixedArray", "CreateWithQuantity", [ref(q[0]), V], kw={"dimension": d})
        return self.op("mk.FixedArray.cwq_value", "FixedArray", "CreateWithQuantity", [ref(q[0])], kw={"value": V})

    def mk_frac(self, sim):
        rng = self.rng
        b = self.qt()
        u, c = self.unit_of(b), self.cat_of(b)
        fv = self.fraction_value()
        form = rng.choice(["cvu", "vu", "fvuc", "c", "qv"])
        if form == "cvu":
            return self.op("mk.FractionScalar.cvu", "FractionScalar", "()", [c], kw={"value": fv, "unit": u})
        if form == "vu":
            return self.op("mk.FractionScalar.vu", "FractionScalar", "()", [fv, u])
        if form == "fvuc":
            return self.op("mk.FractionScalar.fuc", "FractionScalar", "()", [abs(float(self.value())), u, c])
        if form == "c":
            return self.op("mk.FractionScalar.c", "FractionScalar", "()", [c])
        q = self.quant(sim)
        if q is None:
            return self.op("mk.FractionScalar.vu", "FractionScalar", "()", [fv, u])
        return self.op("mk.FractionScalar.qv", "FractionScalar", "()", [ref(q[0]), fv])

    def mk_fromscalars(self, sim):
        u, _ = _barril()
        ss = sim.live(lambda v: isinstance(v, u.Scalar) and M.is_simple_known(v))
        if not ss:
            return None
        first = self.rng.choice(ss)
        qt = first[1].GetQuantityType()
        same = [s for s in ss if s[1].GetQuantityType() == qt]
        k = self.rng.randint(0, min(4, len(same)))
        chosen = [self.rng.choice(same) for _ in range(k)]
        kw = {}
        b = self.basis_for_qt(qt)
        if b and self.rng.random() < 0.5:
            kw["unit"] = self.unit_of(b)
        if b and self.rng.random() < 0.3:
            kw["category"] = self.cat_of(b)
            kw.setdefault("unit", self.unit_of(b))
        return self.op("mk.Array.FromScalars", "Array", "FromScalars", [{"L": [ref(s[0]) for s in chosen]}], kw=kw)

    # requests for interned quantities; repeated requests must return the identical object
    def g_mk_q(self, sim):
        rng = self.rng
        b = self.qt()
        u, c = self.unit_of(b), self.cat_of(b)
        if self.cfg.get("burst") and not self.bursted and self.requests and self.n > 4 and rng.random() < 0.15:
            # a long-running session: hundreds of distinct requests between two equal ones
            self.bursted = True
            return self.op("mk.q.burst", "py", "request_burst", [self.cfg["burst"], "burst %d" % self.n])
        form = rng.choice(
            ["u", "u", "uc", "uc", "ucc", "nonec", "list1", "list", "ctor", "derived", "derived", "twin", "twin", "empty", "unknown", "unknown_c", "area", "legacy", "reuse"]
        )
        if form == "twin":
            # the composing map of a quantity that already exists (e.g. the by-product of arithmetic),
            # requested again explicitly: with another caption, without caption, or as it is
            src = self.pick(sim, lambda v: M.quantity_of(v) is not None and M.quantity_of(v).IsDerived())
            if src is None:
                form = "derived"
            else:
                qsrc = M.quantity_of(src[1])
                od = {"OD": [[cat, {"L": [ue[0], ue[1]]}] for cat, ue in qsrc.GetCategoryToUnitAndExps().items()]}
                cap = rng.choice([None, "cap D", "cap E", qsrc.GetUnknownCaption() or None])
                if rng.random() < 0.5:
                    op = self.op("mk.q.derived", "Quantity", "CreateDerived", [od], kw={"unknown_unit_caption": cap} if cap else None)
                else:
                    op = self.op("mk.q.derived.obtain", "units", "ObtainQuantity", [od, None] + ([cap] if cap else []))
                op["x"] = [{"o": "q_request", "p": "C07", "id": "C07.request_honoured", "form": "derived" if op["k"] == "mk.q.derived" else "derived_obtain"}]
                key = repr((op["t"], op["m"], op["a"], op.get("kw")))
                if key in self.requests:
                    op["x"].append({"o": "same_as", "p": "C07", "id": "C07.intern_identity", "ref": self.requests[key]})
                else:
                    self.requests[key] = self.i
                return op
        if form == "reuse":
            # a caller builds one dict, requests a derived quantity, edits ITS OWN dict and re-uses it
            if getattr(self, "plan", None):
                return None
            b2 = self.qt()
            u2, c2 = self.unit_of(b2), self.cat_of(b2)
            if c2 == c:
                return None
            e1 = rng.choice([1, 2, -1])
            od = {"OD": [[c, {"L": [u, e1]}], [c2, {"L": [u2, rng.choice([1, -1, 2])]}]]}
            first = self.op("caller.dict", "py", "identity", [od])
            first["c"] = "inspector"
            self.plan_base = self.i  # the step this op will get
            if rng.random() < 0.5:
                mk = lambda: dict(self.op("mk.q.derived.shared", "Quantity", "CreateDerived", [{"ref": "PLAN0"}]), c="inspector")
            else:
                mk = lambda: dict(self.op("mk.q.derived.shared_obtain", "units", "ObtainQuantity", [{"ref": "PLAN0"}]), c="inspector")
            if rng.random() < 0.5:
                edit = self.op("caller.edit", "py", "edit_dict", [{"ref": "PLAN0"}, c, 0, self.unit_of(b, other_than=u)])
            else:
                edit = self.op("caller.edit", "py", "edit_dict", [{"ref": "PLAN0"}, c, 1, e1 + 1 if e1 + 1 != 0 else 3])
            edit["c"] = "inspector"
            self.plan = [mk(), edit, mk()]
            return first
        op = None
        intern = True
        if form in ("unknown", "unknown_c") and self.cfg["world"] != "W-POSC":
            # barril's module-level unknown quantity belongs to the default database
            form = "u"
        if form == "u":
            op = self.op("mk.q.u", "units", "ObtainQuantity", [u])
        elif form == "uc":
            op = self.op("mk.q.uc", "units", "ObtainQuantity", [u, c])
        elif form == "ucc":
            cap = rng.choice(["cap A", "cap B"])
            op = self.op("mk.q.ucc", "units", "ObtainQuantity", [u, c, cap])
        elif form == "nonec":
            if self.dyn_cats and rng.random() < 0.5:
                live = [x for x, _q in self.dyn_cats if _db_now().IsValidCategory(x)]
                if live:
                    c = rng.choice(live)
            op = self.op("mk.q.nonec", "units", "ObtainQuantity", [None, c])
        elif form == "list1":
            op = self.op("mk.q.list1", "units", "ObtainQuantity", [{"L": [{"T": [u, 1]}]}, {"L": [c]}])
        elif form in ("list", "derived"):
            b2 = self.qt()
            u2, c2 = self.unit_of(b2), self.cat_of(b2)
            e1, e2 = rng.choice([1, 2, -1, 3, -2]), rng.choice([1, -1, 2, -2])
            if c2 == c:
                return None
            if form == "list":
                op = self.op(
                    "mk.q.list",
                    "units",
                    "ObtainQuantity",
                    [{"L": [{"T": [u, e1]}, {"T": [u2, e2]}]}, {"L": [c, c2]}],
                )
            else:
                od = {"OD": [[c, {"L": [u, e1]}], [c2, {"L": [u2, e2]}]]}
                if rng.random() < 0.3 and not getattr(self, "plan", None):
                    rev = {"OD": [[c2, {"L": [u2, e2]}], [c, {"L": [u, e1]}]]}
                    self.plan = [dict(self.op("mk.q.derived", "Quantity", "CreateDerived", [rev]), c="inspector")]
                elif rng.random() < 0.3:
                    od = {"OD": [[c, {"L": [u, e1 if e1 != 1 else 2]}]]}
                kw = {"unknown_unit_caption": "cap D"} if rng.random() < 0.15 else None
                op = self.op("mk.q.derived", "Quantity", "CreateDerived", [od], kw=kw)
                if kw is None and rng.random() < 0.12:
                    op = self.op("mk.q.derived", "Quantity", "CreateDerived", [od, "cap P"])  # caption given positionally
        elif form == "ctor":
            op = self.op("mk.q.ctor", "Quantity", "()", [c, u])
            intern = False  # direct construction is not interned (equal, not identical)
        elif form == "empty":
            op = self.op("mk.q.empty", "Quantity", "CreateEmpty", [])
        elif form == "unknown":
            op = self.op("mk.q.unknown", "units", "GetUnknownQuantity", [])
        elif form == "unknown_c":
            op = self.op("mk.q.unknown_c", "units", "GetUnknownQuantity", [rng.choice(["cap U", "cap V"])])
        elif form == "area":
            lq = self.pick(sim, lambda v: M.quantity_of(v) is not None and hasattr(v, "GetComposingUnits") and v.GetQuantityType() == "length" and not v.IsDerived())
            if lq is None:
                return None
            fn = rng.choice(["CreateAreaQuantityFromLengthQuantity", "CreateVolumeQuantityFromLengthQuantity"])
            op = self.op("mk.q.area_volume", "posc", fn, [ref(lq[0])])
        elif form == "legacy":
            cands = []
            for qt in ("volume", "amount of substance", "volume flow rate", "molar mass", "mole per time", "standard volume"):
                if qt in self.info:
                    for un in self.info[qt]["units"]:
                        for leg, cur in LEGACY:
                            if cur in un and qt in self.info:
                                cands.append(un.replace(cur, leg, 1))
            if not cands:
                return None
            op = self.op("mk.q.legacy", "units", "ObtainQuantity", [rng.choice(sorted(set(cands)))])
        if op is None:
            return None
        if form in ("u", "uc", "ucc", "nonec", "legacy", "ctor", "derived", "list", "list1", "unknown_c"):
            op["x"] = [{"o": "q_request", "p": "C07", "id": "C07.request_honoured", "form": form}]
        if intern:
            key = repr((op["t"], op["m"], op["a"], op.get("kw")))
            if key in self.requests:
                op["x"] = op.get("x", []) + [{"o": "same_as", "p": "C07", "id": "C07.intern_identity", "ref": self.requests[key]}]
            else:
                self.requests[key] = self.i
        return op

    # --------------------------------------------------------------- ar: arithmetic
    def compatible_partner(self, sim, x):
        """An object of x's class family with the same dimension vector (other unit/category)."""
        u, _ = _barril()
        qx = M.quantity_of(x)
        vx = M.dim_vector(qx)
        fam = (u.Array,) if isinstance(x, u.Array) else (u.Scalar,)
        c = sim.live(lambda v: isinstance(v, fam) and M.dim_vector(M.quantity_of(v)) == vx)
        return self.rng.choice(c) if c else None

    def g_ar(self, sim):
        rng = self.rng
        u, _ = _barril()
        r = rng.random()
        x = self.pick(sim, lambda v: isinstance(v, (u.Scalar, u.Array)))
        if x is None:
            return None
        opn = rng.choice(BINOPS)
        if r < 0.12:
            n = rng.choice([1, 2, 2, 3])
            return self.op("ar.pow", "py", "pow", [ref(x[0]), n])
        if r < 0.37:
            k = self.value()
            if opn in ("truediv", "floordiv") and k == 0:
                k = 2.0
            ke = k
            if rng.random() < 0.15:
                ke = {"np": float(k), "dt": rng.choice(["float64", "float32", "int64"])}
                if ke["dt"] == "int64":
                    ke["np"] = int(k) if abs(k) < 1e15 else 1
            elif rng.random() < 0.12 and isinstance(x[1], u.Array):
                try:
                    ke = {"N": W.draw_values(rng, len(x[1].GetValues())), "dt": "float64"}
                except Exception:
                    pass
            if rng.random() < 0.5:
                return self.op("ar.num_right." + opn, "py", opn, [ref(x[0]), ke])
            return self.op("ar.num_left." + opn, "py", opn, [ke, ref(x[0])])
        if r < 0.47:
            q1, q2 = self.quant(sim), self.quant(sim)
            if q1 is None or q2 is None:
                return None
            if rng.random() < 0.5:
                qop = rng.choice(["add", "sub", "mul", "truediv"])
                return self.tag_incompat(self.op("ar.q." + qop, "py", qop, [ref(q1[0]), ref(q2[0])]), q1, q2, qop)
            dbop = rng.choice(["Sum", "Subtract", "Multiply", "Divide", "FloorDivide"])
            v1, v2 = self.value(), W.draw_value(rng, allow_zero=False)
            o = self.op("ar.db." + dbop, "db", dbop, [ref(q1[0]), ref(q2[0]), v1, v2])
            return self.tag_incompat(o, q1, q2, {"Sum": "add", "Subtract": "sub"}.get(dbop, "mul"))
        # object (op) object
        if opn in ("add", "sub"):
            y = self.compatible_partner(sim, x[1]) if rng.random() < 0.85 else None
            if y is None:
                y = self.pick(sim, lambda v: isinstance(v, (u.Scalar, u.Array)))
        else:
            y = self.pick(sim, lambda v: isinstance(v, (u.Scalar, u.Array)))
            if rng.random() < 0.7 and y is not None and isinstance(y[1], u.Array) != isinstance(x[1], u.Array):
                y = self.pick(sim, lambda v: isinstance(v, u.Array if isinstance(x[1], u.Array) else u.Scalar))
        if y is None:
            return None
        o = self.op("ar.obj." + opn, "py", opn, [ref(x[0]), ref(y[0])])
        if opn == "mul" and rng.random() < 0.3 and not getattr(self, "plan", None):
            # the commuted product: same composing map in another order (a different quantity)
            self.plan = [dict(self.op("ar.obj.mul", "py", "mul", [ref(y[0]), ref(x[0])]), c="calculator")]
        return self.tag_incompat(o, x, y, opn)

    def text_twin(self, sim):
        """A derived value whose unit caption coincides with the symbol of a simple unit of ANOTHER
        quantity type ((m)*(m) reads 'm2' like the area unit): build both, then order / add them."""
        rng = self.rng
        u, _ = _barril()
        if getattr(self, "plan", None):
            return None
        xs = sim.live(lambda v: isinstance(v, u.Scalar) and not isinstance(v, u.Array) and M.is_simple_known(v))
        rng.shuffle(xs)
        for x in xs[:6]:
            un = x[1].GetUnit()
            for text, build in ((un + "2", "mul"), (un + "3", "mul3")):
                if M.unit_type(text) is None or M.unit_type(text) == x[1].GetQuantityType():
                    continue
                base = self.i
                steps = [self.op("ar.obj.mul", "py", "mul", [ref(x[0]), ref(x[0])])]
                if build == "mul3":
                    steps.append(self.op("ar.obj.mul", "py", "mul", [{"ref": "PLANREL0"}, ref(x[0])]))
                steps.append(self.op("mk.Scalar.vu", "Scalar", "()", [self.value(), text]))
                opn = rng.choice(RELOPS + ["add", "sub"])
                last_derived = len(steps) - 2
                cmp_op = self.op(("cmp." if opn in RELOPS else "ar.obj.") + opn, "py", opn, [{"ref": "PLANREL%d" % last_derived}, {"ref": "PLANREL%d" % (len(steps) - 1)}])
                cmp_op["f"] = "F1.incompatible"
                cmp_op["k"] = "flt.incompatible." + cmp_op["k"]
                cmp_op["x"] = [{"o": "reject", "p": "C05", "id": "C05.loud", "why": "pair", "x": {"ref": "PLANREL%d" % last_derived}, "y": {"ref": "PLANREL%d" % (len(steps) - 1)}}]
                steps.append(cmp_op)
                for s_ in steps:
                    s_["c"] = "saboteur"
                first = steps.pop(0)
                self.plan_rel_base = base
                self.plan = steps
                self.plan_sticky = True
                return first
        return None

    def tag_incompat(self, op, x, y, opn):
        if opn in ("add", "sub") + tuple(RELOPS) and _same_family(x[1], y[1], opn) and M.incompatible(x[1], y[1]):
            op["f"] = "F1.incompatible"
            op["k"] = "flt.incompatible." + op["k"]
            op["x"] = op.get("x", []) + [
                {"o": "reject", "p": "C05", "id": "C05.loud", "why": "pair", "x": ref(x[0]), "y": ref(y[0])}
            ]
        return op

    # --------------------------------------------------------------- cmp
    def g_cmp(self, sim):
        rng = self.rng
        u, _ = _barril()
        r = rng.random()
        if r < 0.35:
            a, b = self.anyobj(sim), self.anyobj(sim)
            if a is None or b is None:
                return None
            opn = rng.choice(["eq", "ne"])
            return self.op("cmp." + opn, "py", opn, [ref(a[0]), ref(b[0])])
        if r < 0.75:
            a = self.pick(sim, lambda v: isinstance(v, (u.Scalar, u.FractionScalar)))
            if a is None:
                return None
            same = sim.live(
                lambda v: isinstance(v, type(a[1])) and v.GetQuantityType() == a[1].GetQuantityType()
            )
            b = rng.choice(same) if (same and rng.random() < 0.8) else self.pick(sim, lambda v: isinstance(v, (u.Scalar, u.FractionScalar)))
            if b is None:
                return None
            opn = rng.choice(RELOPS)
            return self.tag_incompat(self.op("cmp." + opn, "py", opn, [ref(a[0]), ref(b[0])]), a, b, opn)
        if r < 0.9:
            a = self.pick(sim, lambda v: isinstance(v, (u.Scalar, u.Quantity)))
            if a is None:
                return None
            return self.op("cmp.hash", "py", "hash", [ref(a[0])])
        a, b = self.scal(sim), self.scal(sim)
        if a is None or b is None:
            return None
        return self.op("cmp.almost", ref(a[0]), "AlmostEqual", [ref(b[0]), rng.choice([3, 6, 9])])

    # --------------------------------------------------------------- cv: conversions
    def g_cv(self, sim):
        rng = self.rng
        u, _ = _barril()
        r = rng.random()
        if r < 0.22:
            x = self.pick(sim, lambda v: isinstance(v, (u.Scalar, u.FractionScalar)))
            if x is None:
                return None
            un = self.unit_same_type(x[1]) or x[1].GetUnit()
            return self.op("cv.GetValue", ref(x[0]), "GetValue", [un])
        if r < 0.36:
            x = self.arr(sim)
            if x is None:
                return None
            un = self.unit_same_type(x[1]) or x[1].GetUnit()
            return self.op("cv.GetValues", ref(x[0]), "GetValues", [un])
        if r < 0.56:
            x = self.valobj(sim)
            if x is None:
                return None
            un = self.unit_same_type(x[1])
            form = rng.choice(["unit", "unit", "unit_cat", "value", "plain"])
            if form == "plain" or un is None:
                return self.op("cv.CreateCopy", ref(x[0]), "CreateCopy", [])
            if form == "unit":
                return self.op("cv.CreateCopy.unit", ref(x[0]), "CreateCopy", [], kw={"unit": un})
            if form == "unit_cat":
                b = self.basis_for_qt(M.quantity_of(x[1]).GetQuantityType())
                return self.op("cv.CreateCopy.unit_cat", ref(x[0]), "CreateCopy", [], kw={"unit": un, "category": self.cat_of(b)})
            if isinstance(x[1], u.Scalar):
                return self.op("cv.CreateCopy.value", ref(x[0]), "CreateCopy", [], kw={"value": self.value()})
            if isinstance(x[1], u.FixedArray):
                return self.op("cv.CreateCopy.values", ref(x[0]), "CreateCopy", [], kw={"values": self.container(x[1].dimension, kinds=("L", "T", "N"))})
            if isinstance(x[1], u.Array):
                return self.op("cv.CreateCopy.values", ref(x[0]), "CreateCopy", [], kw={"values": self.container()})
            return self.op("cv.CreateCopy.value", ref(x[0]), "CreateCopy", [], kw={"value": self.fraction_value()})
        if r < 0.68:
            q = self.pick(sim, lambda v: isinstance(v, u.Quantity) and M.is_simple_known(v))
            if q is None:
                return None
            un = self.unit_same_type(q[1])
            if un is None:
                return None
            if rng.random() < 0.5:
                return self.op("cv.q.ConvertScalarValue", ref(q[0]), "ConvertScalarValue", [self.value(), un])
            return self.op("cv.q.Convert", ref(q[0]), "Convert", [self.container(kinds=("L", "T", "N")), un])
        if r < 0.84:
            b = self.qt()
            u1, u2 = self.unit_of(b), self.unit_of(b)
            tc = b[0] if rng.random() < 0.5 else self.cat_of(b)
            rr = rng.random()
            if rng.random() < 0.12 and len(self.basis) >= 2:
                # the all-accepting quantity type 'Unknown' (exempt by design): any pair of units
                # passes - and must not make the same pair pass under a real quantity type later
                b2 = rng.choice([x for x in self.basis if x[0] != b[0]])
                v = self.value() if rng.random() < 0.3 else self.container(kinds=("L", "N", "N"))
                ua, ub = rng.choice(list(b[1])), rng.choice(list(b2[1]))
                if not getattr(self, "plan", None) and "convert" in (self.cfg.get("flt_kinds") or ["convert"]):
                    cat = self.cat_of(b)
                    bad = self.op("flt.incompatible.cv.db.Convert.after_unknown", "db", "Convert", [cat, ua, ub, v], f="F1.incompatible", x=[{"o": "reject", "p": "C05", "id": "C05.loud", "why": "catunit", "category": cat, "unit": ub}])
                    self.plan = [dict(bad, c="saboteur")]
                return self.op("cv.db.Convert.unknown_type", "db", "Convert", ["Unknown", ua, ub, v])
            if rr < 0.45:
                return self.op("cv.db.Convert.float", "db", "Convert", [tc, u1, u2, self.value()])
            if rr < 0.8:
                return self.op("cv.db.Convert.container", "db", "Convert", [tc, u1, u2, self.container(kinds=("L", "T", "N"))])
            e = rng.choice([1, 2, 3, -1])
            return self.op(
                "cv.db.Convert.exp",
                "db",
                "Convert",
                [tc, {"L": [{"T": [u1, e]}]}, {"L": [{"T": [u2, e]}]}, abs(float(self.value()))],
            )
        if r < 0.92:
            s1, s2 = self.scal(sim), self.scal(sim)
            if s1 is None or s2 is None:
                return None
            ch = {}
            for name, s in (("alpha", s1), ("beta", s2)):
                if rng.random() < 0.7:
                    un = self.unit_same_type(s[1])
                    form = rng.choice(["vu", "v", "u"])
                    if form == "vu" and un:
                        ch[name] = {"T": [self.value(), un]}
                    elif form == "u" and un:
                        ch[name] = {"T": [None, un]}
                    else:
                        ch[name] = {"T": [self.value(), None]}
            return self.op(
                "cv.ChangeScalars",
                "py",
                "change_scalars",
                [{"D": [["alpha", ref(s1[0])], ["beta", ref(s2[0])]]}, {"D": [[k, v] for k, v in ch.items()]}],
            )
        f = self.frac(sim)
        if f is None or not M.is_simple_known(f[1]):
            return None
        un = self.unit_same_type(f[1])
        if un is None:
            return None
        qarg = f[1].GetQuantityType() if rng.random() < 0.5 else None
        if qarg is None:
            q = self.pick(sim, lambda v: isinstance(v, u.Quantity) and M.is_simple_known(v) and v.GetQuantityType() == f[1].GetQuantityType())
            if q is None:
                qarg = f[1].GetQuantityType()
            else:
                qarg = ref(q[0])
        return self.op(
            "cv.ConvertFractionValue", "FractionScalar", "ConvertFractionValue", [self.fraction_value(), qarg, f[1].GetUnit(), un]
        )

    # --------------------------------------------------------------- fixed: FixedArray / curve chains (C11)
    def g_fixed(self, sim):
        rng = self.rng
        u, _ = _barril()
        fa = self.arr(sim, fixed=True)
        if fa is None:
            return self.mk_fixed(sim)
        r = rng.random()
        d = fa[1].dimension
        if r < 0.3:
            idx = rng.randrange(-d, d) if isinstance(d, int) and d > 0 else 0
            form = rng.choice(["float", "tuple", "scalar", "scalar"])
            uvu = rng.choice([True, True, False])
            if form == "float":
                x = self.value()
            elif form == "tuple":
                un = self.unit_same_type(fa[1]) or fa[1].GetUnit()
                x = {"T": [self.value(), un]}
            else:
                qt = fa[1].GetQuantityType()
                ss = sim.live(lambda v: isinstance(v, u.Scalar) and v.GetQuantityType() == qt)
                if not ss:
                    x = self.value()
                else:
                    x = ref(rng.choice(ss)[0])
            o = self.op("fixed.ChangingIndex", ref(fa[0]), "ChangingIndex", [idx, x], kw={"use_value_unit": uvu})
            o["x"] = [{"o": "changing_index", "p": "C11", "id": "C11.changing_index"}]
            return o
        if r < 0.45:
            idx = rng.randrange(-d, d) if isinstance(d, int) and d > 0 else 0
            a = [idx]
            if rng.random() < 0.6:
                qt = fa[1].GetQuantityType()
                qs = sim.live(lambda v: isinstance(v, u.Quantity) and not v.IsDerived() and v.GetQuantityType() == qt)
                if qs:
                    a.append(ref(rng.choice(qs)[0]))
            o = self.op("fixed.IndexAsScalar", ref(fa[0]), "IndexAsScalar", a)
            o["x"] = [{"o": "index_as_scalar", "p": "C11", "id": "C11.index_as_scalar"}]
            return o
        if r < 0.6:
            form = rng.choice(["values", "unit", "unit_cat", "plain"])
            un = self.unit_same_type(fa[1])
            if form == "values" or un is None:
                return self.op("fixed.CreateCopy.values", ref(fa[0]), "CreateCopy", [], kw={"values": self.container(d, kinds=("L", "T", "N"))})
            if form == "unit":
                return self.op("fixed.CreateCopy.unit", ref(fa[0]), "CreateCopy", [], kw={"unit": un})
            if form == "unit_cat":
                b = self.basis_for_qt(fa[1].GetQuantityType())
                if b is None:
                    return None
                return self.op("fixed.CreateCopy.unit_cat", ref(fa[0]), "CreateCopy", [], kw={"unit": un, "category": self.cat_of(b)})
            return self.op("fixed.CreateCopy", ref(fa[0]), "CreateCopy", [])
        if r < 0.85:
            opn = rng.choice(BINOPS)
            rr = rng.random()
            if rr < 0.3:
                k = W.draw_value(rng, allow_zero=False)
                return self.op("fixed.ar.num." + opn, "py", opn, [ref(fa[0]), k] if rng.random() < 0.6 else [k, ref(fa[0])])
            if rr < 0.45:
                return self.op("fixed.ar.nd." + opn, "py", opn, [ref(fa[0]), {"N": W.draw_values(rng, d if rng.random() < 0.8 else d + 1), "dt": "float64"}])
            other = self.arr(sim)
            if other is None:
                return None
            if opn in ("add", "sub") and rng.random() < 0.8:
                p = self.compatible_partner(sim, fa[1])
                if p is not None:
                    other = p
            o = self.op("fixed.ar.obj." + opn, "py", opn, [ref(fa[0]), ref(other[0])])
            return self.tag_incompat(o, fa, other, opn)
        if r < 0.93:
            return self.op("fixed.pickle", "py", "pickle", [ref(fa[0])], x=[{"o": "eq_arg", "p": "C13", "id": "C13.pickle_equal", "arg": 0}, {"o": "eq_arg", "p": "C11", "id": "C11.pickle_dimension", "arg": 0}])
        return self.mk_fixed(sim)

    def g_curve(self, sim):
        rng = self.rng
        u, Curve = _barril()
        cv = self.pick(sim, lambda v: isinstance(v, Curve))
        if cv is None or rng.random() < 0.25:
            a = self.arr(sim)
            if a is None:
                return self.mk_array(sim)
            try:
                n = len(a[1].GetValues())
            except Exception:
                return None
            same = sim.live(lambda v: isinstance(v, u.Array) and _len(v) == n)
            if rng.random() < 0.75 and same:
                b = rng.choice(same)
                return self.op("curve.new", "Curve", "()", [ref(a[0]), ref(b[0])])
            b = self.arr(sim)
            o = self.op("curve.new", "Curve", "()", [ref(a[0]), ref(b[0])])
            if _len(b[1]) != n:
                o["f"] = "F1.bad_arg"
                o["k"] = "flt.bad_arg.curve.new"
                o["x"] = [{"o": "raises", "p": "C11", "id": "C11.reject_contradiction", "cls": ["ValueError"], "case": "curve_length"}]
            return o
        n = _len(cv[1].GetImage())
        side = rng.choice(["SetImage", "SetDomain", "image", "domain"])
        if rng.random() < 0.12:
            # values without a length: a 0-d ndarray or an iterator (built for this call only)
            b = self.qt()
            vals = {"N": [self.value()], "dt": "float64", "sh": []} if rng.random() < 0.6 else {"G": draw_vals(rng, n)}
            new = {"new": "Array", "a": [vals, self.unit_of(b)]}
            if side in ("SetImage", "SetDomain"):
                o = self.op("flt.bad_arg.curve.set." + side + ".unsized", ref(cv[0]), side, [new])
            else:
                o = self.op("flt.bad_arg.curve.set." + side + ".unsized", "py", "setattr", [ref(cv[0]), side, new])
            o["f"] = "F1.bad_arg"
            o["x"] = [{"o": "curve_set", "p": "C11", "id": "C11.curve_atomic", "side": "image" if side in ("SetImage", "image") else "domain", "unsized": True}]
            return o
        want_bad = rng.random() < 0.45
        cands = sim.live(lambda v: isinstance(v, u.Array) and ((_len(v) != n) if want_bad else (_len(v) == n)))
        if not cands:
            return self.mk_array(sim)
        a = rng.choice(cands)
        if side in ("SetImage", "SetDomain"):
            o = self.op("curve.set." + side, ref(cv[0]), side, [ref(a[0])])
        else:
            o = self.op("curve.set." + side, "py", "setattr", [ref(cv[0]), side, ref(a[0])])
        o["x"] = [{"o": "curve_set", "p": "C11", "id": "C11.curve_atomic", "side": "image" if side in ("SetImage", "image") else "domain"}]
        if _len(a[1]) != n:
            o["f"] = "F1.bad_arg"
            o["k"] = "flt.bad_arg." + o["k"]
        return o

    # --------------------------------------------------------------- gc: short-lived objects
    def g_gc(self, sim):
        """A loop over short-lived values: the same closed calls with all objects kept alive and
        with every object dropped right after its call (address reuse).  The items alternate between
        two quantity types, repeat one target unit and never repeat an amount."""
        rng = self.rng
        if len(self.basis) < 2:
            return None
        b1, b2 = rng.sample(self.basis, 2)
        if len(b1[1]) < 2:
            b1, b2 = b2, b1
        if len(b1[1]) < 2:
            return None
        u1, u1b = rng.sample(list(b1[1]), 2)
        u2 = rng.choice(list(b2[1]))
        c1, c2 = rng.choice(list(b1[2])), rng.choice(list(b2[2]))
        flavour = rng.choice(["q_csv", "q_conv", "s_get", "fa_index", "fa_change", "a_get", "add", "fs_get"])
        n = rng.randint(5, 12)
        items = []
        base = float(rng.randint(1, 40))
        for j in range(n):
            v = base + 1.25 * j
            other = j % 2 == 1 and rng.random() < 0.8
            u, c = (u2, c2) if other else (u1, c1)
            d = rng.choice([2, 3])
            V = {rng.choice(["L", "T"]): [v + 0.5 * k for k in range(d)]} if rng.random() < 0.6 else {"N": [v + 0.5 * k for k in range(d)], "dt": "float64"}
            if flavour == "q_csv":
                it = {"t": {"new": "Quantity", "a": [c, u]}, "m": "ConvertScalarValue", "a": [v, u1b]}
            elif flavour == "q_conv":
                it = {"t": {"new": "Quantity", "a": [c, u]}, "m": "Convert", "a": [V, u1b]}
            elif flavour == "s_get":
                it = {"t": {"new": "Scalar", "a": [v, u]}, "m": "GetValue", "a": [u1b]}
            elif flavour == "fs_get":
                it = {"t": {"new": "FractionScalar", "a": [{"FV": [v, [1, 2]]}, u]}, "m": "GetValue", "a": [u1b]}
            elif flavour == "fa_index":
                it = {"t": {"new": "FixedArray", "a": [d, V, u]}, "m": "IndexAsScalar", "a": [rng.randrange(d), u1b]}
            elif flavour == "fa_change":
                it = {"t": {"new": "FixedArray", "a": [d, V, u]}, "m": "ChangingIndex", "a": [rng.randrange(d), {"T": [v * 2, u1b]}]}
            elif flavour == "a_get":
                it = {"t": {"new": "Array", "a": [V, u]}, "m": "GetValues", "a": [u1b]}
            else:
                it = {"fn": rng.choice(["add", "sub", "lt"]), "a": [{"new": "Scalar", "a": [v, u1b]}, {"new": "Scalar", "a": [v + 1, u]}]}
            items.append(it)
        return self.op("gc.loop." + flavour, "py", "lifetime_burst", [{"J": items}], x=[{"o": "lifetime", "p": self.cfg.get("prop", "C05"), "id": self.cfg.get("prop", "C05") + ".gc_independent"}])

    # --------------------------------------------------------------- val / fmt / lk / cp
    def g_val(self, sim):
        rng = self.rng
        u, _ = _barril()
        r = rng.random()
        if r < 0.55:
            x = self.valobj(sim)
            if x is None:
                return None
            m = rng.choice(["IsValid", "CheckValidity"])
            return self.op("val." + m, ref(x[0]), m, [])
        if r < 0.75:
            b = self.qt()
            return self.op("val.db.CheckValueForCategory", "db", "CheckValueForCategory", [self.cat_of(b), self.value(), self.unit_of(b)])
        if r < 0.88:
            q = self.quant(sim)
            if q is None:
                return None
            return self.op("val.q.CheckValue", ref(q[0]), "CheckValue", [self.value()])
        s = self.scal(sim)
        if s is None:
            return None
        m = rng.choice(["CreateScalarCheckErrorMsg", "CreateScalarCheckWarningMsg"])
        return self.op("val.validator", "Validator", m, [ref(s[0]), "prop"])

    def g_fmt(self, sim):
        rng = self.rng
        u, Curve = _barril()
        x = self.anyobj(sim)
        if x is None:
            return None
        v = x[1]
        choices = ["repr", "str"]
        if isinstance(v, (u.Scalar, u.FractionScalar)):
            choices += ["GetFormatted", "GetFormatted.u", "GetFormattedValue", "GetFormattedSuffix", "GetUnitName", "GetValueAndUnit"]
        elif isinstance(v, u.Array):
            choices += ["GetFormattedSuffix", "GetUnitName", "len", "list"]
        elif isinstance(v, u.Quantity):
            choices += ["GetUnitCaption", "GetUnitName"]
        m = rng.choice(choices)
        if m in ("repr", "str", "len", "list"):
            return self.op("fmt." + m, "py", m, [ref(x[0])])
        if m == "GetFormatted.u":
            un = self.unit_same_type(v)
            if un is None:
                return None
            return self.op("fmt.GetFormatted.unit", ref(x[0]), "GetFormatted", [un])
        return self.op("fmt." + m, ref(x[0]), m, [])

    def g_lk(self, sim):
        rng = self.rng
        u, _ = _barril()
        r = rng.random()
        b = self.qt()
        if r < 0.5:
            T, U, C = b[0], self.unit_of(b), self.cat_of(b)
            if rng.random() < 0.12:
                # unknown names: lookups must fail (or answer None) without changing anything
                T, U, C = rng.choice([("no such type", U, C), (T, "no-such-unit", C), (T, U, "no such category")])
            table = [
                ("GetQuantityTypes", []),
                ("GetUnits", [T]),
                ("GetUnitNames", [T]),
                ("GetBaseUnit", [T]),
                ("GetQuantityType", [U]),
                ("GetDefaultCategory", [U]),
                ("GetUnitName", [T, U]),
                ("IsValidCategory", [C]),
                ("GetCategoryInfo", [C]),
                ("GetCategoryQuantityType", [C]),
                ("GetValidUnits", [C]),
                ("GetDefaultUnit", [C]),
                ("GetDefaultValue", [C]),
                ("FindUnitCase", [C, U.upper() if rng.random() < 0.5 else U]),
                ("FindSimilarUnitMatches", [U]),
                ("CheckQuantityTypeUnit", [T, U]),
                ("CheckCategoryUnit", [C, U]),
                ("CheckQuantityType", [T]),
            ]
            m, a = rng.choice(table)
            f = "F1.unknown_name" if ("no such" in repr(a) or "no-such" in repr(a)) else None
            return self.op(("flt.unknown_name." if f else "lk.") + "db." + m, "db", m, a, f=f)
        if r < 0.7:
            x = self.valobj(sim)
            if x is None:
                return None
            m = rng.choice(["GetValidUnits", "GetUnit", "GetCategory", "GetQuantityType", "GetUnitName", "HasCategory", "GetQuantity"])
            return self.op("lk.obj." + m, ref(x[0]), m, [])
        q = self.quant(sim)
        if q is None:
            return None
        m = rng.choice(
            [
                "GetValidUnits",
                "GetCategory",
                "GetQuantityType",
                "GetUnit",
                "GetUnknownCaption",
                "GetUnitCaption",
                "IsDerived",
                "GetCategoryInfo",
                "GetComposingCategories",
                "GetComposingUnits",
                "GetComposingUnitsJoiningExponents",
                "GetCategoryToUnitAndExpsCopy",
                "GetUnitName",
                "SetUnknownCaption",
            ]
        )
        if m == "SetUnknownCaption":
            return self.op(
                "lk.q.SetUnknownCaption",
                ref(q[0]),
                m,
                ["changed"],
                x=[{"o": "raises", "p": "C07", "id": "C07.readonly", "cls": ["ReadOnlyError"]}],
            )
        return self.op("lk.q." + m, ref(q[0]), m, [])

    def g_cp(self, sim):
        rng = self.rng
        u, _ = _barril()
        x = self.pick(sim, lambda v: isinstance(v, (u.Scalar, u.Array, u.FractionScalar, u.Quantity)))
        if x is None:
            return None
        v = x[1]
        isq = isinstance(v, u.Quantity)
        ms = ["copy", "deepcopy", "Copy", "CreateCopyInstance"]
        if isq:
            ms += ["MakeCopy", "pickle", "pickle"]
        else:
            ms += ["CreateCopy"]
            if isinstance(v, u.Scalar) or isinstance(v, u.FixedArray):
                ms += ["pickle", "pickle"]
        m = rng.choice(ms)
        if isq:
            xid = [{"o": "is_arg", "p": "C07", "id": "C07.copy_identity", "arg": 0}]
            xeq = [{"o": "eq_arg", "p": "C07", "id": "C07.pickle_equal", "arg": 0}]
        else:
            xid = [{"o": "eq_arg", "p": "C13", "id": "C13.copy_equal", "arg": 0}]
            xeq = [{"o": "eq_arg", "p": "C13", "id": "C13.pickle_equal", "arg": 0}, {"o": "eq_arg", "p": "C11", "id": "C11.pickle_dimension", "arg": 0}]
        if m in ("copy", "deepcopy"):
            return self.op("cp." + m, "py", m, [ref(x[0])], x=xid)
        if m == "pickle":
            return self.op("cp.pickle", "py", "pickle", [ref(x[0])], x=xeq)
        spec = [dict(s, o=s["o"].replace("_arg", "_target")) for s in xid]
        return self.op("cp." + m, ref(x[0]), m, [], x=spec)

    # --------------------------------------------------------------- reg: a plugin registers things
    def g_reg(self, sim):
        """Registrations in the middle of a value history (C05: "at any point inside an arbitrary
        sequence of other operations"): most of them must be refused by the database; the accepted
        ones add categories with fresh names.  No oracle of its own: what is checked is that the
        incompatible requests issued afterwards are still refused."""
        rng = self.rng
        b = self.qt()
        others = [x for x in self.basis if x[0] != b[0]]
        n = len(self.dyn_cats)
        form = rng.choice(self.reg_forms or ["unit_dup", "unit_dup", "base_dup", "cat_dup", "cat_foreign_default", "cat_foreign_valid", "cat_new", "cat_new", "cat_copy", "cat_bad_limits"])
        if form == "unit_new":
            db = _db_now()
            todo = [d for d in self.dyn_units if db.GetQuantityType(d["sym"]) is None]
            if not todo:
                return None
            d = rng.choice(todo)
            self.requests = {}  # a unit registration drops the intern table: identity starts over
            again = self.lookahead_ops.pop(d["sym"], [])
            if again and not getattr(self, "plan", None):
                # what was refused before the unit existed is asked again right after its registration
                self.plan = [dict(a, c="calculator") for a in again[-3:]]
                self.plan_sticky = True
            if d.get("callable"):
                # conversion functions supplied by the caller (peers owned by the simulator: F2)
                return self.op("reg.AddUnit.new_callable", "db", "AddUnit", [d["qt"], d["name"], d["sym"]] + self.peer_specs(d))
            return self.op("reg.AddUnit.new", "db", "AddUnit", [d["qt"], d["name"], d["sym"], "%%f / %r" % d["k"], "%%f * %r" % d["k"]])
        if form in ("cat_override", "cat_retype"):
            db = _db_now()
            live = [(c, db.GetCategoryQuantityType(c)) for c, _q in self.dyn_cats if db.IsValidCategory(c)]
            if not live:
                return None
            c, qt_now = rng.choice(live)
            self.requests = {}  # the category is replaced: earlier requests resolve differently now
            if form == "cat_retype":
                cands = [x for x in self.basis if x[0] != qt_now]
                if not cands:
                    return None
                # objects created for the old quantity type cannot be re-created by a successor
                # process that registers the category with the new one: no restart after this point
                self.restart_at = []
                b2 = rng.choice(cands)
                return self.op("reg.AddCategory.retype", "db", "AddCategory", [c, b2[0]], kw={"override": True})
            b2 = self.basis_for_qt(qt_now)
            if b2 is None:
                return None
            # objects built against the replaced registration carry its limits; a successor process
            # would re-create them against the new one: no restart after this point
            self.restart_at = []
            kw = {"override": True, "default_unit": rng.choice(b2[1])}
            if not getattr(self, "plan", None):
                # afterwards somebody asks for "the category in its default unit" again
                nonec = self.op("mk.q.nonec", "units", "ObtainQuantity", [None, c], x=[{"o": "q_request", "p": "C07", "id": "C07.request_honoured", "form": "nonec"}])
                self.plan = [dict(nonec, c="inspector")]
            lo, hi = rng.choice([(None, None), (0.0, None), (None, 1000.0), (-10.0, 10.0)])
            if lo is not None:
                kw["min_value"] = lo
            if hi is not None:
                kw["max_value"] = hi
            return self.op("reg.AddCategory.override", "db", "AddCategory", [c, qt_now], kw=kw)
        if form in ("unit_dup", "base_dup"):
            sym = self.rng.choice(rng.choice(others)[1]) if (others and rng.random() < 0.8) else rng.choice(b[1])
            if form == "unit_dup":
                k = rng.choice([2.0, 10.0, 0.5])
                return self.op("reg.AddUnit.dup", "db", "AddUnit", [b[0], "sim unit %d" % self.n, sym, "%%f * %r" % k, "%%f / %r" % k])
            return self.op("reg.AddUnitBase.dup", "db", "AddUnitBase", [b[0], "sim base %d" % self.n, sym])
        if form == "cat_dup":
            return self.op("reg.AddCategory.dup", "db", "AddCategory", [self.cat_of(b), b[0]])
        name = "sim cat %d" % n
        if form in ("cat_new", "cat_copy") and self.cfg.get("empty_name_category") and not any(c == "" for c, _q in self.dyn_cats):
            name = ""  # a legal, if unusual, category name
        if form == "cat_foreign_default":
            if not others:
                return None
            return self.op("reg.AddCategory.foreign_default", "db", "AddCategory", [name, b[0]], kw={"default_unit": rng.choice(rng.choice(others)[1])})
        if form == "cat_foreign_valid":
            if not others:
                return None
            vu = [rng.choice(b[1]), rng.choice(rng.choice(others)[1])]
            rng.shuffle(vu)
            return self.op("reg.AddCategory.foreign_valid", "db", "AddCategory", [name, b[0]], kw={"valid_units": {"L": vu}})
        if form == "cat_bad_limits":
            return self.op("reg.AddCategory.bad_limits", "db", "AddCategory", [name, b[0]], kw={"min_value": 10.0, "max_value": 1.0})
        self.dyn_cats.append((name, b[0]))
        self.requests = {}  # every accepted registration drops the intern table: identity starts over
        if form == "cat_copy":
            return self.op("reg.AddCategory.copy", "db", "AddCategory", [name], kw={"from_category": self.cat_of(b)})
        kw = {}
        if rng.random() < 0.5:
            kw["valid_units"] = {"L": list(b[1][: rng.randint(1, len(b[1]))])}
        if rng.random() < 0.4:
            kw["default_unit"] = rng.choice(kw["valid_units"]["L"] if "valid_units" in kw else b[1])
        return self.op("reg.AddCategory.new", "db", "AddCategory", [name, b[0]], kw=kw)

    # --------------------------------------------------------------- flt: rejected calls (F1)
    def g_flt(self, sim):
        rng = self.rng
        u, _ = _barril()
        kinds = self.cfg.get("flt_kinds") or ["pair", "convert", "create", "badarg", "unknown"]
        kind = rng.choice(kinds)
        if kind == "pair" and rng.random() < 0.12:
            tw = self.text_twin(sim)
            if tw is not None:
                return tw
        if self.cfg.get("db2") and rng.random() < 0.12 and not getattr(self, "plan", None):
            # the same conversion asked of the singleton (where it is valid) and of the second
            # database (where one of the units belongs to another quantity type), in either order
            d = self.cfg["db2"]
            t = d["from"]
            own = [w for tt, us in d["types"] if tt == t for w in us]
            if own:
                frm, to = (rng.choice(own), d["moved"]) if rng.random() < 0.5 else (d["moved"], rng.choice(own))
                val = self.value() if rng.random() < 0.5 else self.container(rng.choice([1, 2, 3]), kinds=("L", "T", "N"))
                valid = self.op("cv.db.Convert.float", "db", "Convert", [t, frm, to, val])
                bad = self.op("flt.incompatible.cv.db2.Convert", "db2", "Convert", [t, frm, to, val], f="F1.incompatible", x=[{"o": "reject_db2", "p": "C05", "id": "C05.loud", "t": t, "frm": frm, "to": to}])
                valid["c"] = bad["c"] = "saboteur"
                if rng.random() < 0.7:
                    self.plan = [bad]
                    self.plan_sticky = True
                    return valid
                self.plan = [valid]
                self.plan_sticky = True
                return bad
        if kind == "pair":
            x = self.pick(sim, lambda v: isinstance(v, (u.Scalar, u.Array, u.FractionScalar, u.Quantity)) and bool(M.dim_vector(M.quantity_of(v))))
            if x is None:
                return None
            fam = (u.Array,) if isinstance(x[1], u.Array) else (u.Quantity,) if isinstance(x[1], u.Quantity) else (u.Scalar, u.FractionScalar)
            ys = sim.live(lambda v: isinstance(v, fam) and M.incompatible(x[1], v))
            if not ys:
                return None
            y = rng.choice(ys)
            if isinstance(x[1], (u.Scalar, u.FractionScalar)) and rng.random() < 0.4:
                opn = rng.choice(RELOPS)
                if type(x[1]) is not type(y[1]) and rng.random() < 0.7:
                    return None
                base = self.op("cmp." + opn, "py", opn, [ref(x[0]), ref(y[0])])
            elif isinstance(x[1], u.FractionScalar) or isinstance(y[1], u.FractionScalar):
                return None
            elif isinstance(x[1], u.Quantity) and rng.random() < 0.5:
                dbop = rng.choice(["Sum", "Subtract"])
                base = self.op("ar.db." + dbop, "db", dbop, [ref(x[0]), ref(y[0]), self.value(), self.value()])
                return self.tag_incompat(base, x, y, "add")
            else:
                opn = rng.choice(["add", "sub"])
                base = self.op("ar.obj." + opn, "py", opn, [ref(x[0]), ref(y[0])])
            return self.tag_incompat(base, x, y, opn)
        if kind == "convert" and rng.random() < 0.2:
            # a DERIVED value asked for in a (simple) unit of some quantity type
            x = self.pick(sim, lambda v: isinstance(v, (u.Scalar, u.Array)) and M.quantity_of(v).IsDerived() and bool(M.dim_vector(M.quantity_of(v))))
            if x is not None:
                fu = self.unit_of(self.qt())
                if M.foreign_unit_for_derived(x[1], fu):
                    isarr = isinstance(x[1], u.Array)
                    form = rng.choice(["get", "copy", "fmt"])
                    if form == "get" and (not isarr or _len(x[1]) > 0):
                        o = self.op("cv.GetValues" if isarr else "cv.GetValue", ref(x[0]), "GetValues" if isarr else "GetValue", [fu])
                    elif form == "fmt" and not isarr:
                        o = self.op("fmt.GetFormatted.unit", ref(x[0]), "GetFormatted", [fu])
                    else:
                        o = self.op("cv.CreateCopy.unit", ref(x[0]), "CreateCopy", [], kw={"unit": fu})
                    o["f"] = "F1.incompatible"
                    o["k"] = "flt.incompatible." + o["k"]
                    o["x"] = [{"o": "reject", "p": "C05", "id": "C05.loud", "why": "unit_derived", "x": ref(x[0]), "unit": fu}]
                    return o
        if kind == "convert":
            x = self.pick(sim, lambda v: M.quantity_of(v) is not None and M.is_simple_known(v))
            if x is None:
                return None
            fu = self.foreign_unit_for(x[1])
            if fu is None or not M.foreign_unit(x[1], fu):
                return None
            v = x[1]
            spec = [{"o": "reject", "p": "C05", "id": "C05.loud", "why": "unit", "x": ref(x[0]), "unit": fu}]
            if isinstance(v, u.Quantity):
                if rng.random() < 0.5:
                    o = self.op("cv.q.ConvertScalarValue", ref(x[0]), "ConvertScalarValue", [self.value(), fu])
                else:
                    o = self.op("cv.q.Convert", ref(x[0]), "Convert", [self.container(rng.choice([1, 2, 3]), kinds=("L", "T", "N")), fu])
            elif isinstance(v, u.Array):
                nonempty = _len(v) > 0
                forms = ["CreateCopy.unit", "CreateCopy.unit_cat"] + (["GetValues"] if nonempty else [])
                if isinstance(v, u.FixedArray):
                    forms += ["IndexAsScalar", "ChangingIndex"]
                form = rng.choice(forms)
                if form == "GetValues":
                    o = self.op("cv.GetValues", ref(x[0]), "GetValues", [fu])
                elif form == "CreateCopy.unit":
                    o = self.op("cv.CreateCopy.unit", ref(x[0]), "CreateCopy", [], kw={"unit": fu})
                elif form == "CreateCopy.unit_cat":
                    o = self.op("cv.CreateCopy.unit_cat", ref(x[0]), "CreateCopy", [], kw={"unit": fu, "category": v.GetCategory()})
                else:
                    qt_f = sim_qt(fu)
                    if form == "IndexAsScalar":
                        qs = sim.live(lambda w: isinstance(w, u.Quantity) and not w.IsDerived() and w.GetQuantityType() == qt_f)
                        if not qs:
                            return None
                        qf = rng.choice(qs)
                        o = self.op("fixed.IndexAsScalar", ref(x[0]), "IndexAsScalar", [0, ref(qf[0])])
                        spec = [{"o": "reject", "p": "C05", "id": "C05.loud", "why": "pair", "x": ref(x[0]), "y": ref(qf[0])}]
                    else:
                        ss = sim.live(lambda w: isinstance(w, u.Scalar) and w.GetQuantityType() == qt_f)
                        if not ss:
                            return None
                        sf = rng.choice(ss)
                        o = self.op("fixed.ChangingIndex", ref(x[0]), "ChangingIndex", [0, ref(sf[0])], kw={"use_value_unit": rng.choice([True, False])})
                        spec = [{"o": "reject", "p": "C05", "id": "C05.loud", "why": "pair", "x": ref(x[0]), "y": ref(sf[0])}]
            else:
                form = rng.choice(["GetValue", "CreateCopy.unit", "CreateCopy.unit_cat", "GetFormatted"])
                if form == "GetValue":
                    o = self.op("cv.GetValue", ref(x[0]), "GetValue", [fu])
                elif form == "GetFormatted":
                    o = self.op("fmt.GetFormatted.unit", ref(x[0]), "GetFormatted", [fu])
                elif form == "CreateCopy.unit":
                    o = self.op("cv.CreateCopy.unit", ref(x[0]), "CreateCopy", [], kw={"unit": fu})
                else:
                    o = self.op("cv.CreateCopy.unit_cat", ref(x[0]), "CreateCopy", [], kw={"unit": fu, "category": v.GetCategory()})
            o["f"] = "F1.incompatible"
            o["k"] = "flt.incompatible." + o["k"]
            o["x"] = o.get("x", []) + spec
            return o
        if kind == "create":
            b1 = self.qt()
            others = [b for b in self.basis if b[0] != b1[0]]
            if not others:
                return None
            b2 = rng.choice(others)
            c, fu = self.cat_of(b1), self.unit_of(b2)
            if self.legacy and rng.random() < 0.15:
                far = [leg for leg, _cur, q in self.legacy if q != b1[0]]
                if far:
                    fu = rng.choice(far)
            spec = [{"o": "reject", "p": "C05", "id": "C05.loud", "why": "catunit", "category": c, "unit": fu}]
            if rng.random() < 0.08:
                # the same quantity type, but another exponent: m -> cm2 is another dimension
                e1, e2 = rng.choice([(1, 2), (2, 1), (1, 3), (1, -1), (2, 3)])
                ua, ub = self.unit_of(b1), self.unit_of(b1)
                frm = {"L": [{"T": [ua, e1]}]} if (e1 != 1 or rng.random() < 0.5) else ua
                to = {"L": [{"T": [ub, e2]}]}
                tc = c if rng.random() < 0.5 else b1[0]
                o = self.op("cv.db.Convert.exp_mismatch", "db", "Convert", [tc, frm, to, abs(float(self.value())) + 1.0])
                o["f"] = "F1.incompatible"
                o["k"] = "flt.incompatible." + o["k"]
                o["x"] = [{"o": "raises", "p": "C05", "id": "C05.loud", "cls": ["UnitsError", "TypeError", "ValueError"], "case": "exponent_mismatch"}]
                return o
            form = rng.choice(["Scalar.vuc", "Scalar.cvu", "Scalar.cu", "Array.Vuc", "FixedArray.dcVu", "FractionScalar.cvu", "q.uc", "q.ctor", "q.derived", "q.derived_repeat", "db.Convert", "db.Convert.container", "db.CheckCategoryUnit", "db.CheckQuantityTypeUnit", "db.CheckValueForCategory"])
            v = self.value()
            if form == "Scalar.vuc":
                o = self.op("mk.Scalar.vuc", "Scalar", "()", [v, fu, c])
            elif form == "Scalar.cvu":
                o = self.op("mk.Scalar.cvu", "Scalar", "()", [c, v, fu])
            elif form == "Scalar.cu":
                o = self.op("mk.Scalar.cu", "Scalar", "()", [c], kw={"unit": fu})
            elif form == "Array.Vuc":
                o = self.op("mk.Array.Vuc", "Array", "()", [self.container(), fu, c])
            elif form == "FixedArray.dcVu":
                o = self.op("mk.FixedArray.dcVu", "FixedArray", "()", [3, c, self.container(3, kinds=("L", "T", "N")), fu])
            elif form == "FractionScalar.cvu":
                o = self.op("mk.FractionScalar.cvu", "FractionScalar", "()", [c], kw={"value": self.fraction_value(), "unit": fu})
            elif form == "q.uc":
                o = self.op("mk.q.uc", "units", "ObtainQuantity", [fu, c])
            elif form == "q.ctor":
                o = self.op("mk.q.ctor", "Quantity", "()", [c, fu])
            elif form == "q.derived":
                c2, u2 = self.cat_of(b2), self.unit_of(b2)
                if c2 == c:
                    return None
                o = self.op("mk.q.derived", "Quantity", "CreateDerived", [{"OD": [[c, {"L": [fu, 1]}], [c2, {"L": [u2, -1]}]]}])
            elif form == "q.derived_repeat":
                # the SAME unit symbol twice: valid for the first category, foreign for the second
                # (through the validating route CreateDerived only: ObtainQuantity with a composing
                # map / list is the documented unvalidated fast path, see DESIGN 4.C05)
                c_ok = self.cat_of(b2)
                if c_ok == c:
                    return None
                e1, e2 = rng.choice([(1, -1), (1, 1), (2, -1)])
                o = self.op("mk.q.derived", "Quantity", "CreateDerived", [{"OD": [[c_ok, {"L": [fu, e1]}], [c, {"L": [fu, e2]}]]}])
            elif form == "db.CheckCategoryUnit":
                o = self.op("lk.db.CheckCategoryUnit", "db", "CheckCategoryUnit", [c, fu])
            elif form == "db.CheckQuantityTypeUnit":
                o = self.op("lk.db.CheckQuantityTypeUnit", "db", "CheckQuantityTypeUnit", [b1[0], fu])
            elif form == "db.CheckValueForCategory":
                o = self.op("val.db.CheckValueForCategory", "db", "CheckValueForCategory", [c, v, fu])
            elif form == "db.Convert":
                tc = c if rng.random() < 0.5 else b1[0]
                o = self.op("cv.db.Convert.float", "db", "Convert", [tc, self.unit_of(b1), fu, v] if rng.random() < 0.5 else [tc, fu, self.unit_of(b1), v])
            else:
                o = self.op("cv.db.Convert.container", "db", "Convert", [c, self.unit_of(b1), fu, self.container(rng.choice([1, 2, 3]), kinds=("L", "T", "N"))])
            o["f"] = "F1.incompatible"
            o["k"] = "flt.incompatible." + o["k"]
            o["x"] = spec
            return o
        if kind == "badarg":
            return self.flt_badarg(sim)
        if kind == "unknown":
            b = self.qt()
            nm = rng.choice(["no-such-unit", "xyz"])
            form = rng.choice(["Scalar.vu", "Scalar.vuc", "Array.Vu", "q.u", "q.uc", "GetValue", "db.Convert", "Scalar.c"])
            if self.dyn_units and rng.random() < 0.6:
                # look-ahead: a unit that a plugin is going to register later in this run
                db = _db_now()
                todo = [d for d in self.dyn_units if db.GetQuantityType(d["sym"]) is None]
                if todo:
                    d = rng.choice(todo)
                    bb = self.basis_for_qt(d["qt"])
                    if bb is not None:
                        b, nm = bb, d["sym"]
                        form = rng.choice(["Scalar.vuc", "Scalar.vuc", "q.uc", "db.Convert", "Scalar.vu", "db.CheckCategoryUnit"])
            if form == "Scalar.vu":
                o = self.op("mk.Scalar.vu", "Scalar", "()", [self.value(), nm])
            elif form == "Scalar.vuc":
                o = self.op("mk.Scalar.vuc", "Scalar", "()", [self.value(), nm, self.cat_of(b)])
            elif form == "Array.Vu":
                o = self.op("mk.Array.Vu", "Array", "()", [self.container(), nm])
            elif form == "q.u":
                o = self.op("mk.q.u", "units", "ObtainQuantity", [nm])
            elif form == "q.uc":
                o = self.op("mk.q.uc", "units", "ObtainQuantity", [nm, self.cat_of(b)])
            elif form == "Scalar.c":
                o = self.op("mk.Scalar.c", "Scalar", "()", ["no such category"])
            elif form == "db.CheckCategoryUnit":
                o = self.op("lk.db.CheckCategoryUnit", "db", "CheckCategoryUnit", [self.cat_of(b), nm])
            elif form == "db.Convert":
                o = self.op("cv.db.Convert.float", "db", "Convert", [b[0], self.unit_of(b), nm, self.value()])
            else:
                s = self.pick(sim, lambda v: isinstance(v, (u.Scalar, u.FractionScalar)) and M.is_simple_known(v))
                if s is None:
                    return None
                o = self.op("cv.GetValue", ref(s[0]), "GetValue", [nm])
            if nm.startswith("simU"):
                # remembered: once the unit exists, the very same request is a valid one
                self.lookahead_ops.setdefault(nm, []).append({k: (list(v) if isinstance(v, list) else v) for k, v in o.items()})
            o["f"] = "F1.unknown_name"
            o["k"] = "flt.unknown_name." + o["k"]
            o["x"] = [{"o": "raises_any", "p": "C05", "id": "C05.loud", "why": "unknown_unit", "unit": nm}]
            return o
        return None

    def flt_badarg(self, sim):
        """Self-contradictory FixedArray requests (C11): must raise ValueError."""
        rng = self.rng
        u, _ = _barril()
        b = self.qt()
        un, c = self.unit_of(b), self.cat_of(b)
        form = rng.choice(["dim_lt2", "dim_lt2_v", "dim_lt2_v", "dim_lt2_c", "len_mismatch", "len_mismatch_q", "cwq_mismatch", "cwq_short", "both_values", "copy_len", "copy_len", "copy_len_unit", "copy_len_unit", "nd_shape", "nd_shape", "empty_mismatch", "empty_lt2"])
        spec = [{"o": "raises", "p": "C11", "id": "C11.reject_contradiction", "cls": ["ValueError"], "case": form}]
        if form == "dim_lt2":
            d = rng.choice([1, 0, -1])
            o = self.op("mk.FixedArray.dVu", "FixedArray", "()", [d, self.container(max(d, 0), kinds=("L", "T", "N")), un])
        elif form == "dim_lt2_v":
            # an explicit dimension below 2 together with two or more values, through every route
            d = rng.choice([0, 0, 1, -1])
            V = self.container(rng.choice([2, 3]), kinds=("L", "T", "N"))
            route = rng.choice(["ctor", "ctor_c", "empty_v", "cwq_d", "cwq_d"])
            if route == "ctor":
                o = self.op("mk.FixedArray.dVu", "FixedArray", "()", [d, V, un])
            elif route == "ctor_c":
                o = self.op("mk.FixedArray.dcVu", "FixedArray", "()", [d, c, V, un])
            elif route == "empty_v":
                o = self.op("mk.FixedArray.empty_v", "FixedArray", "CreateEmptyArray", [d, V])
            else:
                q = self.quant(sim)
                if q is None:
                    return None
                o = self.op("mk.FixedArray.cwq_d", "FixedArray", "CreateWithQuantity", [ref(q[0]), V], kw={"dimension": d})
        elif form == "dim_lt2_c":
            o = self.op("mk.FixedArray.dc", "FixedArray", "()", [rng.choice([1, 0]), c])
        elif form == "len_mismatch":
            d = rng.choice([2, 3, 4])
            n = rng.choice([x for x in (0, 1, 2, 3, 4, 5) if x != d])
            o = self.op("mk.FixedArray.dVu", "FixedArray", "()", [d, self.container(n, kinds=("L", "T", "N")), un])
        elif form == "len_mismatch_q":
            q = self.quant(sim)
            if q is None:
                return None
            d = rng.choice([2, 3])
            o = self.op("mk.FixedArray.dqV", "FixedArray", "()", [d, ref(q[0]), self.container(d + rng.choice([1, 2, -1]), kinds=("L", "T", "N"))])
        elif form == "cwq_mismatch":
            q = self.quant(sim)
            if q is None:
                return None
            d = rng.choice([2, 3, 4])
            o = self.op("mk.FixedArray.cwq_d", "FixedArray", "CreateWithQuantity", [ref(q[0]), self.container(d + rng.choice([1, -1]), kinds=("L", "T", "N"))], kw={"dimension": d})
        elif form == "cwq_short":
            q = self.quant(sim)
            if q is None:
                return None
            o = self.op("mk.FixedArray.cwq", "FixedArray", "CreateWithQuantity", [ref(q[0]), self.container(rng.choice([0, 1]), kinds=("L", "T", "N"))])
        elif form == "both_values":
            q = self.quant(sim)
            if q is None:
                return None
            o = self.op("mk.FixedArray.cwq_both", "FixedArray", "CreateWithQuantity", [ref(q[0]), self.container(2, kinds=("L", "T"))], kw={"value": self.container(2, kinds=("L", "T"))})
        elif form == "copy_len":
            fa = self.arr(sim, fixed=True)
            if fa is None:
                return None
            d = fa[1].dimension
            o = self.op("fixed.CreateCopy.values", ref(fa[0]), "CreateCopy", [], kw={"values": self.container(d + rng.choice([1, -1, 2]), kinds=("L", "T", "N"))})
            spec.append({"o": "target_unchanged", "p": "C11", "id": "C11.reject_contradiction"})
        elif form == "copy_len_unit":
            # CreateCopy(values=<other length>, unit=..[, category=..]): every keyword route, also
            # for arrays whose quantity is empty (CreateEmptyArray, a / a)
            fa = self.arr(sim, fixed=True)
            if fa is None:
                return None
            d = fa[1].dimension
            empties = sim.live(lambda v: isinstance(v, u.FixedArray) and not v.GetQuantity().GetUnit() and not v.GetQuantity().GetCategory())
            if empties and rng.random() < 0.5:
                fa = rng.choice(empties)
                d = fa[1].dimension
            q = fa[1].GetQuantity()
            if q.IsDerived() and (q.GetUnit() or q.GetCategory()):
                return None
            kw = {"values": self.container(d + rng.choice([1, -1, 2]), kinds=("L", "T", "N"))}
            if M.is_simple_known(fa[1]):
                bb = self.basis_for_qt(q.GetQuantityType())
                kw["unit"] = self.unit_same_type(fa[1]) or fa[1].GetUnit()
                if bb is not None and rng.random() < 0.4:
                    kw["category"] = self.cat_of(bb)
            elif not q.GetUnit():
                kw["unit"] = un  # empty quantity: the copy takes the given unit
                if rng.random() < 0.3:
                    kw["category"] = c
            else:
                return None
            o = self.op("fixed.CreateCopy.values_unit", ref(fa[0]), "CreateCopy", [], kw=kw)
            spec.append({"o": "target_unchanged", "p": "C11", "id": "C11.reject_contradiction"})
        elif form == "nd_shape":
            # a multi-axis numpy container whose element count equals the dimension but whose length
            # (first axis) does not
            d = rng.choice([2, 3, 4, 4, 6])
            shape = {2: [1, 2], 3: [1, 3], 4: rng.choice([[1, 4], [2, 2]]), 6: rng.choice([[2, 3], [3, 2], [1, 6]])}[d]
            V = {"N": W.draw_values(rng, d), "dt": "float64", "sh": shape}
            route = rng.choice(["ctor", "ctor_c", "copy", "cwq_d", "empty_v"])
            if route == "ctor":
                o = self.op("mk.FixedArray.dVu", "FixedArray", "()", [d, V, un])
            elif route == "ctor_c":
                o = self.op("mk.FixedArray.dcVu", "FixedArray", "()", [d, c, V, un])
            elif route == "empty_v":
                o = self.op("mk.FixedArray.empty_v", "FixedArray", "CreateEmptyArray", [d, V])
            elif route == "cwq_d":
                q = self.quant(sim)
                if q is None:
                    return None
                o = self.op("mk.FixedArray.cwq_d", "FixedArray", "CreateWithQuantity", [ref(q[0]), V], kw={"dimension": d})
            else:
                fas = sim.live(lambda v: isinstance(v, u.FixedArray) and v.dimension == d)
                if not fas:
                    return None
                fa = rng.choice(fas)
                o = self.op("fixed.CreateCopy.values", ref(fa[0]), "CreateCopy", [], kw={"values": V})
        elif form == "empty_mismatch":
            d = rng.choice([2, 3])
            o = self.op("mk.FixedArray.empty_v", "FixedArray", "CreateEmptyArray", [d, self.container(d + 1, kinds=("L", "T", "N"))])
        else:
            o = self.op("mk.FixedArray.empty", "FixedArray", "CreateEmptyArray", [rng.choice([1, 0])])
        o["f"] = "F1.bad_arg"
        o["k"] = "flt.bad_arg." + o["k"]
        o["x"] = spec
        return o


def draw_vals(rng, n):
    return [float(rng.randint(-9, 9)) for _ in range(max(n, 1))]


def _len(a):
    try:
        return len(a.GetValues())
    except Exception:
        return -1


def _db_now():
    from barril.units.unit_database import UnitDatabase

    return UnitDatabase.GetSingleton()


def sim_qt(unit):
    from barril.units.unit_database import UnitDatabase

    return UnitDatabase.GetSingleton().GetQuantityType(unit)


def _same_family(a, b, opn):
    """Operand classes for which barril defines the operation at all (the dimension check is only
    meaningful there: Scalar + Array is unsupported whatever the units)."""
    u, _ = _barril()
    if isinstance(a, u.Quantity) or isinstance(b, u.Quantity):
        return isinstance(a, u.Quantity) and isinstance(b, u.Quantity)
    if isinstance(a, u.Array) or isinstance(b, u.Array):
        return isinstance(a, u.Array) and isinstance(b, u.Array) and opn in ("add", "sub")
    if isinstance(a, u.FractionScalar) or isinstance(b, u.FractionScalar):
        return opn in RELOPS and isinstance(a, (u.Scalar, u.FractionScalar)) and isinstance(b, (u.Scalar, u.FractionScalar))
    return isinstance(a, u.Scalar) and isinstance(b, u.Scalar)
