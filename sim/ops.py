"""
Operation language = replay format, and its executor.

An op is a JSON dict:
  i    absolute step number (results are referenced as {"ref": i})
  c    client that issued it (scheduling / evidence only)
  k    label (family.kind) used for statistics and oracles
  t    target: {"ref": n} | "db" | "units" | "posc" | "py" | "mgr" | a class name
  m    method / function name ("()" = call the target itself)
  a    encoded positional args        kw   encoded keyword args
  f    fault tag (None for workload)  intr k: deliver KeyboardInterrupt at the k-th executed barril line
  x    list of op-level oracle specs (evaluated by the engine at execution time)

Replay never generates: it executes the recorded list.
"""
import copy
import operator
import pickle
import sys
from collections import OrderedDict

import numpy


class SkipOp(Exception):
    """An operand refers to a step that is missing / failed: the op is skipped (and logged so)."""


# ---------------------------------------------------------------------------- encoded values


def enc_value(v):
    """Encode a python value produced by the generator (not arbitrary objects)."""
    if v is None or isinstance(v, (bool, int, float, str)):
        return v
    if isinstance(v, numpy.ndarray):
        return {"N": v.ravel().tolist(), "dt": v.dtype.name, "sh": list(v.shape)}
    if isinstance(v, numpy.generic):
        return {"np": v.item(), "dt": v.dtype.name}
    if isinstance(v, list):
        return {"L": [enc_value(x) for x in v]}
    if isinstance(v, tuple):
        return {"T": [enc_value(x) for x in v]}
    if isinstance(v, OrderedDict):
        return {"OD": [[enc_value(k), enc_value(x)] for k, x in v.items()]}
    if isinstance(v, dict):
        return {"D": [[enc_value(k), enc_value(x)] for k, x in v.items()]}
    raise TypeError("cannot encode %r" % (v,))


def ref(i):
    return {"ref": i}


class Codec:
    def __init__(self, pool):
        self.pool = pool

    def dec(self, a):
        if a is None or isinstance(a, (bool, int, float, str)):
            return a
        if isinstance(a, list):
            raise TypeError("bare list in encoded args")
        if "ref" in a:
            try:
                st, val = self.pool[a["ref"]]
            except KeyError:
                raise SkipOp("ref %s missing" % a["ref"])
            if st != "ok":
                raise SkipOp("ref %s has no value" % a["ref"])
            return val
        if "L" in a:
            return [self.dec(x) for x in a["L"]]
        if "T" in a:
            return tuple(self.dec(x) for x in a["T"])
        if "N" in a:
            arr = numpy.array(a["N"], dtype=a.get("dt", "float64"))
            if "sh" in a:
                arr = arr.reshape(a["sh"])
            return arr
        if "np" in a:
            return numpy.dtype(a["dt"]).type(a["np"])
        if "G" in a:
            return (x for x in [self.dec(v) for v in a["G"]])
        if "FV" in a:
            from barril.basic.fraction import FractionValue

            number, frac = a["FV"]
            if frac is None:
                return FractionValue(number)
            return FractionValue(number, (frac[0], frac[1]))
        if "OD" in a:
            return OrderedDict((self.dec(k), self.dec(x)) for k, x in a["OD"])
        if "D" in a:
            return dict((self.dec(k), self.dec(x)) for k, x in a["D"])
        if "J" in a:  # opaque JSON literal (closed query expression)
            return a["J"]
        if "cls" in a:
            return TARGETS[a["cls"]]()
        if "new" in a:  # an object built for this call only: nobody keeps it afterwards
            return TARGETS[a["new"]]()(*[self.dec(x) for x in a.get("a", [])], **{k: self.dec(v) for k, v in a.get("kw", {}).items()})
        if "call" in a:  # simulator-owned conversion callable (a peer)
            return make_callable(a["call"])
        raise TypeError("cannot decode %r" % (a,))


# ---------------------------------------------------------------------------- targets


def _t_db():
    from barril.units.unit_database import UnitDatabase

    return UnitDatabase.GetSingleton()


def _t_units():
    import barril.units

    return barril.units


def _t_posc():
    import barril.units.posc

    return barril.units.posc


def _t_mgr():
    from barril.units.unit_system_manager import UnitSystemManager

    return UnitSystemManager.GetSingleton()


def _cls(name):
    def get():
        import barril.units as u
        from barril.basic.fraction import Fraction, FractionValue
        from barril.curve.curve import Curve
        from barril.units.scalar_validation.scalar_min_max_validator import ScalarMinMaxValidator

        return {
            "Scalar": u.Scalar,
            "Array": u.Array,
            "FixedArray": u.FixedArray,
            "FractionScalar": u.FractionScalar,
            "Quantity": u.Quantity,
            "Curve": Curve,
            "FractionValue": FractionValue,
            "Fraction": Fraction,
            "Validator": ScalarMinMaxValidator,
            "UnitDatabase": u.UnitDatabase,
        }[name]

    return get


# a second UnitDatabase instance next to the singleton (set up by the profile; never the singleton)
OTHER_DB = {"db": None}

TARGETS = {"db2": lambda: OTHER_DB["db"], "db": _t_db, "units": _t_units, "posc": _t_posc, "mgr": _t_mgr, "py": lambda: PY}
for _n in (
    "Scalar",
    "Array",
    "FixedArray",
    "FractionScalar",
    "Quantity",
    "Curve",
    "FractionValue",
    "Fraction",
    "Validator",
    "UnitDatabase",
):
    TARGETS[_n] = _cls(_n)


def _pickle_rt(x):
    return pickle.loads(pickle.dumps(x, protocol=pickle.HIGHEST_PROTOCOL))


def _change_scalars(attrs, changes):
    """barril.units.ChangeScalars on a throw-away owner; returns the owner's attributes after."""
    import barril.units

    class Owner:
        pass

    owner = Owner()
    for k, v in attrs.items():
        setattr(owner, k, v)
    barril.units.ChangeScalars(owner, **changes)
    return tuple(getattr(owner, k) for k in attrs)


def _setattr(obj, name, value):
    setattr(obj, name, value)
    return None


def _getattr(obj, name):
    return getattr(obj, name)


def _aslist(x):
    return list(x)


def _edit_dict(d, key, idx, val):
    """A caller edits its own dict (which it handed to CreateDerived earlier) before re-using it."""
    d[key][idx] = val
    return None


class SimBox:
    """A caller-defined container class for which the caller registers its own conversion function
    (UnitDatabase.RegisterAdditionalConversionType)."""

    def __init__(self, vals):
        self.vals = list(vals)

    def _sim_fp(self):
        return ["SimBox", [float(v).hex() for v in self.vals]]


def _convert_box(db, quantity_type, from_unit, to_unit, box):
    return SimBox([db.Convert(quantity_type, from_unit, to_unit, float(v)) for v in box.vals])


def _register_box_conversion():
    from barril.units.unit_database import UnitDatabase

    UnitDatabase.RegisterAdditionalConversionType(SimBox, _convert_box)
    return None


def _request_burst(n, prefix):
    """n distinct captioned requests in a row (what a long-running session does over hours)."""
    import barril.units as u

    for j in range(n):
        u.GetUnknownQuantity("%s/%d" % (prefix, j))
    return n


def _lifetime_burst(items):
    """The same list of closed calls twice: once with every object kept alive until the end, once
    with every object dropped as soon as its call returned (what a loop over short-lived values
    does: the next object may be allocated at the address of a dead one).  Returns both outcome
    lists; they are compared by the oracle 'lifetime'."""
    import gc

    from . import fp as F

    codec = Codec({})

    def one(it, keep):
        try:
            if "fn" in it:
                args = [codec.dec(a) for a in it["a"]]
                r = PY.FUNCS[it["fn"]](*args)
                objs = args
            else:
                obj = codec.dec(it["t"])
                args = [codec.dec(a) for a in it["a"]]
                r = getattr(obj, it["m"])(*args)
                objs = [obj] + args
            if keep is not None:
                keep.extend(objs)
                keep.append(r)
            out = ["ok", F.fp(r)]
        except Exception as e:
            out = ["exc", F.exc_fp(e)]
        return out

    kept = []
    a = [one(it, kept) for it in items]
    del kept[:]
    gc.collect()
    b = [one(it, None) for it in items]
    return {"kept": a, "dropped": b}


class _Py:
    FUNCS = {
        "lifetime_burst": _lifetime_burst,
        "request_burst": _request_burst,
        "register_box_conversion": _register_box_conversion,
        "add": operator.add,
        "sub": operator.sub,
        "mul": operator.mul,
        "truediv": operator.truediv,
        "floordiv": operator.floordiv,
        "pow": operator.pow,
        "eq": operator.eq,
        "ne": operator.ne,
        "lt": operator.lt,
        "le": operator.le,
        "gt": operator.gt,
        "ge": operator.ge,
        "hash": lambda x: (hash(x), "hashed")[1],  # the value depends on PYTHONHASHSEED: never logged
        "repr": repr,
        "str": str,
        "len": len,
        "float": float,
        "abs": abs,
        "getitem": operator.getitem,
        "copy": copy.copy,
        "deepcopy": copy.deepcopy,
        "pickle": _pickle_rt,
        "list": _aslist,
        "setattr": _setattr,
        "getattr": _getattr,
        "change_scalars": _change_scalars,
        "identity": lambda x: x,
        "edit_dict": _edit_dict,
        "query": lambda e: __import__("sim.query", fromlist=["evaluate"]).evaluate(e),
    }

    def __getattr__(self, name):
        try:
            return self.FUNCS[name]
        except KeyError:
            raise AttributeError(name)


PY = _Py()

# simulator-owned conversion callables (peers)
SIM_CALLABLES = {}
PEER = {"armed": None, "sim": None, "calls": 0}


class PeerFault(ArithmeticError):
    """F2: a user-supplied conversion callable fails on its n-th invocation."""


def make_callable(spec):
    """'mul:3.0' / 'div:3.0' / 'aff:1.8:32.0' (x*a+b) / 'inv_aff:1.8:32.0' ((x-b)/a) / 'recip:2.0' (a/x)."""
    if spec in SIM_CALLABLES:
        return SIM_CALLABLES[spec]
    parts = spec.split(":")
    kind, nums = parts[0], [float(x) for x in parts[1:]]

    def fn(x):
        PEER["calls"] += 1
        if PEER["armed"] is not None:
            PEER["armed"] -= 1
            if PEER["armed"] <= 0:
                PEER["armed"] = None
                if PEER["sim"] is not None:
                    PEER["sim"].peer_fired = True
                raise PeerFault("simulated failure of a user-supplied conversion callable")
        if kind == "mul":
            return x * nums[0]
        if kind == "div":
            return x / nums[0]
        if kind == "aff":
            return x * nums[0] + nums[1]
        if kind == "inv_aff":
            return (x - nums[1]) / nums[0]
        if kind == "recip":  # its own inverse; raises ZeroDivisionError for the legal amount 0
            return nums[0] / x
        raise ValueError(spec)

    fn.__name__ = "sim_" + kind
    SIM_CALLABLES[spec] = fn
    return fn


# ---------------------------------------------------------------------------- interrupt fault


class Interrupter:
    """F7: raise KeyboardInterrupt at the k-th executed line of barril source inside one call."""

    def __init__(self, src_prefix):
        self.src = src_prefix
        self.k = 0
        self.count = 0
        self.fired = False
        self.where = None

    def _local(self, frame, event, arg):
        if event == "line":
            self.count += 1
            if self.count == self.k and not self.fired:
                self.fired = True
                code = frame.f_code
                self.where = (code.co_filename[len(self.src) :], code.co_name, frame.f_lineno)
                sys.settrace(None)
                raise KeyboardInterrupt("simulated interrupt")
        return self._local

    def _global(self, frame, event, arg):
        if self.fired:
            return None
        if frame.f_code.co_filename.startswith(self.src):
            return self._local
        return None

    def run(self, k, fn):
        self.k = k
        self.count = 0
        self.fired = False
        self.where = None
        sys.settrace(self._global)
        try:
            return fn()
        finally:
            sys.settrace(None)


# ---------------------------------------------------------------------------- executor


def call_op(codec, op):
    """Resolve and perform the call described by op. Raises SkipOp if an operand is missing."""
    t = op["t"]
    try:
        target = codec.dec(t) if isinstance(t, dict) else TARGETS[t]()
        args = [codec.dec(x) for x in op.get("a", [])]
        kw = {k: codec.dec(v) for k, v in op.get("kw", {}).items()}
    except SkipOp:
        raise
    except Exception as e:
        # an operand built for this call only ({"new": ...}) could not be built: that is the
        # library's answer to the whole request
        def failed(e=e):
            raise e

        return failed, None, [], {}
    m = op["m"]
    if m == "()":
        return (lambda: target(*args, **kw)), target, args, kw
    return (lambda: getattr(target, m)(*args, **kw)), target, args, kw
