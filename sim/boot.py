"""
Process boot: fixed hash seed, fresh byte-code cache, sources from the working tree.

Nothing here draws randomness or reads a clock that influences a run.
"""
import os
import shutil
import sys
import tempfile

VERIF_DIR = os.path.dirname(os.path.dirname(os.path.abspath(__file__)))
DEFAULT_SRC = "/repo/src"


def src_dir():
    return os.path.abspath(os.environ.get("BARRIL_VERIF_SRC", DEFAULT_SRC))


def scratch_root():
    # outside /repo, /verif and /tmp
    for cand in ("/dev/shm", os.environ.get("XDG_RUNTIME_DIR") or "", "/var/tmp"):
        if cand and os.path.isdir(cand) and os.access(cand, os.W_OK):
            return cand
    return tempfile.gettempdir()


def reexec_if_needed():
    """Re-execute the interpreter once with the environment the simulator needs."""
    if os.environ.get("BARRIL_VERIF_BOOTED") == "1":
        return
    env = dict(os.environ)
    env["BARRIL_VERIF_BOOTED"] = "1"
    env["BARRIL_VERIF"] = "1"  # the guard name recorded in MANIFEST.hooks (no hook reads it today)
    env.setdefault("PYTHONHASHSEED", "0")
    cache = tempfile.mkdtemp(prefix="barril-verif-pyc-", dir=scratch_root())
    env["PYTHONPYCACHEPREFIX"] = cache
    env["BARRIL_VERIF_PYC"] = cache
    env["LC_ALL"] = "C"
    env["LANG"] = "C"
    for k in ("COVERAGE_PROCESS_START", "COVERAGE_PROCESS_CONFIG", "PYTHONSTARTUP"):
        env.pop(k, None)
    # Run as child (not exec) so that the byte-code scratch dir can be removed afterwards.
    import subprocess

    try:
        rc = subprocess.call([sys.executable, "-X", "faulthandler"] + sys.argv, env=env)
    except KeyboardInterrupt:
        rc = 130
    finally:
        shutil.rmtree(cache, ignore_errors=True)
    sys.exit(rc)


def import_barril():
    """Import barril from the working tree and build the default singleton = pristine image."""
    src = src_dir()
    if sys.path[0] != src:
        sys.path.insert(0, src)
    import barril  # noqa

    got = os.path.abspath(barril.__file__)
    if not got.startswith(src + os.sep):
        raise RuntimeError("barril imported from %s, expected under %s" % (got, src))
    import barril.units  # noqa
    import barril.units.unit_system_manager  # noqa
    import barril.curve.curve  # noqa
    import barril.units.scalar_validation.scalar_min_max_validator  # noqa
    import barril.basic.fraction  # noqa
    import barril.units.posc  # noqa
    from barril.units.unit_database import UnitDatabase

    UnitDatabase.GetSingleton()  # default POSC database
    import warnings

    warnings.simplefilter("ignore")  # numpy RuntimeWarnings of generated arithmetic (display only)
    return src
