"""
Controller.   ./check <ID> [--tier quick|thorough] [--replay FILE] [--runs N] [--budget S]

exit 0  the property held on everything explored (KNOWN-FINDING lines allowed)
exit 1  VIOLATION property=<id> replay=<path>   (minimised, re-confirmed in a fresh interpreter)
exit 2  harness error / timeout (never silently 0)
"""
import argparse
import hashlib
import json
import os
import sys
import time

if __name__ == "__main__":
    sys.path.insert(0, os.path.dirname(os.path.dirname(os.path.abspath(__file__))))

from sim import boot  # noqa: E402


def derive_seed(verif_seed, prop, tier, i):
    h = hashlib.sha256(("%s:%s:%s:%d" % (verif_seed, prop, tier, i)).encode()).digest()
    return int.from_bytes(h[:8], "big")


def load_profile(prop):
    from sim.profiles import REGISTRY

    return REGISTRY[prop]()


COVER_EVERY = {"quick": 50, "thorough": 50}
QUICK_RUNS = {"C05": 5000, "C07": 8000, "C11": 8000, "C13": 5000, "C14": 10000, "C15": 3000, "C17": 12000}


# ------------------------------------------------------------------------------------ worker


def worker_main(prop, tier, k, nworkers, n_runs, budget, known, verif_seed, start_index=0):
    from sim import runner
    from sim.proc import HarnessError, HarnessTimeout

    profile = load_profile(prop)
    t0 = time.monotonic()
    agg = {
        "runs": 0,
        "steps": 0,
        "oracle_checks": 0,
        "faults_fired": {},
        "stats": {},
        "execs": {},
        "shapes_nontrivial": set(),
        "shapes_all": set(),
        "bigrams": set(),
        "fault_victims": set(),
        "states": set(),
        "failures": [],
        "harness": [],
        "known_hits": {},
        "samples": [],
        "last_index": -1,
        "digests": {},
        "lines": set(),
        "cover_runs": 0,
    }
    i = start_index + k
    while i < start_index + n_runs:
        if budget and time.monotonic() - t0 > budget:
            break
        seed = derive_seed(verif_seed, prop, tier, i)
        try:
            res = runner.execute_seed(profile, seed, tier, known)
        except HarnessTimeout as e:
            agg["harness"].append({"index": i, "seed": seed, "kind": "HARNESS-TIMEOUT", "detail": str(e)})
            i += nworkers
            continue
        except HarnessError as e:
            agg["harness"].append({"index": i, "seed": seed, "kind": "HARNESS-ERROR", "detail": str(e)[-3000:]})
            i += nworkers
            continue
        agg["runs"] += 1
        agg["last_index"] = i
        agg["steps"] += len(res["log"])
        agg["oracle_checks"] += res["oracle_checks"]
        agg["digests"][i] = res["digest"]
        for kk, v in res["faults_fired"].items():
            agg["faults_fired"][kk] = agg["faults_fired"].get(kk, 0) + v
        for kk, v in res["stats"].items():
            if isinstance(v, int):
                agg["stats"][kk] = agg["stats"].get(kk, 0) + v
        for kk, v in res["execs"].items():
            agg["execs"][kk] = agg["execs"].get(kk, 0) + v
        shape = hashlib.sha1(
            json.dumps([[o.get("c"), o["k"], o.get("f"), e[3]] for o, e in zip(res["ops"], res["log"])]).encode()
        ).hexdigest()
        agg["shapes_all"].add(shape)
        if res["faults_fired"] and res["oracle_checks"] > 0:
            agg["shapes_nontrivial"].add(shape)
        prev = None
        for o, e in zip(res["ops"], res["log"]):
            fam = ".".join(o["k"].split(".")[:2])
            if prev is not None:
                agg["bigrams"].add((prev, fam))
            prev = fam
            if o.get("f") and e[3] in ("exc", "intr"):
                agg["fault_victims"].add((o["f"], fam))
        for s in res.get("states", []):
            agg["states"].add(s)
        for h in res["known_hits"]:
            agg["known_hits"].setdefault(h["known"], h)
        if res["violations"]:
            if len(agg["failures"]) < 4:
                agg["failures"].append(
                    {"index": i, "seed": seed, "cfg": res["cfg"], "ops": res["ops"], "violations": res["violations"]}
                )
            else:
                agg["failures"].append({"index": i, "seed": seed, "violations": res["violations"][:1]})
        if i % COVER_EVERY[tier] == 0 and not res["violations"]:
            # reach probe (1 run in COVER_EVERY): which barril source lines does a history execute?
            try:
                from sim.proc import run_in_child

                agg["lines"].update(map(tuple, run_in_child(runner.child_cover, (profile, res["cfg"], res["ops"], known), timeout=60.0)))
                agg["cover_runs"] += 1
            except Exception:
                pass
        if len(agg["samples"]) < 1 and k == 0:
            agg["samples"].append(
                {
                    "seed": seed,
                    "world": res["cfg"].get("world"),
                    "history": [
                        {"step": o["i"], "client": o.get("c"), "kind": o["k"], "fault": o.get("f"), "outcome": e[3]}
                        for o, e in list(zip(res["ops"], res["log"]))[:40]
                    ],
                    "first_ops": res["ops"][:6],
                }
            )
        i += nworkers
    agg["wall"] = time.monotonic() - t0
    for key in ("shapes_nontrivial", "shapes_all", "bigrams", "fault_victims", "states", "lines"):
        agg[key] = sorted(agg[key], key=repr)
    return agg


# ------------------------------------------------------------------------------------ controller


def run_workers(prop, tier, nworkers, n_runs, budget, known, verif_seed, start_index=0):
    """Fork the workers (each = pristine image) and collect their aggregates."""
    import pickle
    import select

    from sim.proc import _child_main

    pipes = {}
    for k in range(nworkers):
        rfd, wfd = os.pipe()
        sys.stdout.flush()
        pid = os.fork()
        if pid == 0:
            os.close(rfd)
            for fd in [p for p, _ in pipes.values()]:
                try:
                    os.close(fd)
                except OSError:
                    pass
            _child_main(wfd, worker_main, (prop, tier, k, nworkers, n_runs, budget, known, verif_seed, start_index))
            os._exit(4)
        os.close(wfd)
        pipes[pid] = (rfd, k)
    bufs = {pid: [] for pid in pipes}
    open_fds = {rfd: pid for pid, (rfd, _) in pipes.items()}
    hard = time.monotonic() + (budget or 600) + 900
    while open_fds:
        if time.monotonic() > hard:
            for pid in pipes:
                try:
                    os.kill(pid, 9)
                except ProcessLookupError:
                    pass
            break
        r, _, _ = select.select(list(open_fds), [], [], 1.0)
        for fd in r:
            b = os.read(fd, 1 << 20)
            if b:
                bufs[open_fds[fd]].append(b)
            else:
                os.close(fd)
                del open_fds[fd]
    results = []
    errors = []
    for pid, (rfd, k) in pipes.items():
        try:
            os.waitpid(pid, 0)
        except ChildProcessError:
            pass
        data = b"".join(bufs[pid])
        if not data:
            errors.append({"kind": "HARNESS-ERROR", "detail": "worker %d died without a result" % k})
            continue
        kind, payload = pickle.loads(data)
        if kind != "ok":
            errors.append({"kind": "HARNESS-ERROR", "detail": "worker %d: %s" % (k, payload[-3000:])})
        else:
            results.append(payload)
    return results, errors


def merge(results):
    tot = {
        "runs": 0,
        "steps": 0,
        "oracle_checks": 0,
        "faults_fired": {},
        "stats": {},
        "execs": {},
        "shapes_nontrivial": set(),
        "shapes_all": set(),
        "bigrams": set(),
        "fault_victims": set(),
        "states": set(),
        "failures": [],
        "harness": [],
        "known_hits": {},
        "samples": [],
        "digests": {},
        "lines": set(),
        "cover_runs": 0,
    }
    for r in results:
        for key in ("runs", "steps", "oracle_checks"):
            tot[key] += r[key]
        for key in ("faults_fired", "stats", "execs"):
            for kk, v in r[key].items():
                tot[key][kk] = tot[key].get(kk, 0) + v
        for key in ("shapes_nontrivial", "shapes_all", "bigrams", "fault_victims", "states", "lines"):
            tot[key].update(map(_tup, r[key]))
        tot["cover_runs"] += r.get("cover_runs", 0)
        tot["failures"].extend(r["failures"])
        tot["harness"].extend(r["harness"])
        for kk, v in r["known_hits"].items():
            tot["known_hits"].setdefault(kk, v)
        tot["samples"].extend(r["samples"])
        tot["digests"].update(r["digests"])
    tot["failures"].sort(key=lambda f: f["index"])
    return tot


def _tup(x):
    return tuple(x) if isinstance(x, list) else x


def write_replay(prop, name, cfg, ops, violation, extra=None):
    path = os.path.join(boot.VERIF_DIR, "replays", name)
    os.makedirs(os.path.dirname(path), exist_ok=True)
    doc = {"property": prop, "cfg": cfg, "ops": ops, "violation": violation}
    if extra:
        doc.update(extra)
    with open(path, "w") as f:
        json.dump(doc, f, indent=1, allow_nan=True)
    return path


def confirm_fresh(prop, path):
    """Replay the minimised file in a fresh interpreter; it must fail the same way."""
    import subprocess

    env = {k: v for k, v in os.environ.items() if k not in ("BARRIL_VERIF_BOOTED", "PYTHONPYCACHEPREFIX", "BARRIL_VERIF_PYC")}
    p = subprocess.run(
        [sys.executable, os.path.abspath(__file__), prop, "--replay", path, "--no-evidence"],
        env=env,
        stdout=subprocess.PIPE,
        stderr=subprocess.STDOUT,
        timeout=300,
        text=True,
    )
    return p.returncode == 1 and "VIOLATION property=%s" % prop in p.stdout, p.stdout[-2000:]


def replay_file(prop, path, known, quiet=False):
    from sim import runner

    profile = load_profile(prop)
    doc = json.load(open(path))
    res = runner.execute_ops(profile, doc["cfg"], doc["ops"], known)
    return doc, res


def main(argv=None):
    ap = argparse.ArgumentParser()
    ap.add_argument("prop")
    ap.add_argument("--tier", default=os.environ.get("VERIF_TIER") or "quick", choices=["quick", "thorough"])
    ap.add_argument("--replay")
    ap.add_argument("--runs", type=int)
    ap.add_argument("--budget", type=float)
    ap.add_argument("--workers", type=int, default=int(os.environ.get("VERIF_WORKERS", "0")) or min(16, os.cpu_count() or 1))
    ap.add_argument("--start-index", type=int, default=0)
    ap.add_argument("--no-evidence", action="store_true")
    ap.add_argument("--no-shrink", action="store_true")
    ap.add_argument("--digests-out")
    ap.add_argument("--keep-going", action="store_true", help="do not stop at known findings printing only")
    args = ap.parse_args(argv)

    boot.reexec_if_needed()
    t_start = time.time()
    src = boot.import_barril()
    from sim import known as K
    from sim import runner
    from sim.evidence import write_evidence

    prop = args.prop
    verif_seed = int(os.environ.get("VERIF_SEED", "0") or 0)
    known_entries = K.load(prop)
    known = K.as_tuples(known_entries)
    profile = load_profile(prop)
    print("barril-verif property=%s tier=%s VERIF_SEED=%d src=%s workers=%d hashseed=%s" % (
        prop, args.tier, verif_seed, src, args.workers, os.environ.get("PYTHONHASHSEED")))
    sys.stdout.flush()

    exit_code = 0
    violations_out = []
    known_printed = {}
    directed_info = []

    # ---- single replay
    if args.replay:
        doc0 = json.load(open(args.replay))
        if doc0.get("directed"):
            results = [r for r in profile.directed(known) if r.get("world") == doc0["directed"]]
            bad = [v for r in results for v in r["violations"] if v["oracle"] == doc0["violation"]["oracle"] and v["sig"] == doc0["violation"]["sig"]]
            if bad:
                print("violation: oracle=%s sig=%s\n  %s" % (bad[0]["oracle"], json.dumps(bad[0]["sig"], sort_keys=True), bad[0]["detail"]))
                print("VIOLATION property=%s replay=%s" % (prop, os.path.abspath(args.replay)))
                return 1
            print("replay (directed): no violation")
            return 0
        doc, res = replay_file(prop, args.replay, known)
        for h in res["known_hits"]:
            print("KNOWN-FINDING: property=%s %s [%s]" % (prop, _what(known_entries, h["known"]), h["known"]))
        if res["violations"]:
            v = res["violations"][0]
            print("violation: oracle=%s sig=%s step=%s\n  %s" % (v["oracle"], json.dumps(v["sig"], sort_keys=True), v["step"], v["detail"]))
            print("VIOLATION property=%s replay=%s" % (prop, os.path.abspath(args.replay)))
            return 1
        print("replay: no violation (%d ops executed)" % len(res["log"]))
        return 0

    # ---- directed replays: regression corpus (must pass) and listed findings (must print their line)
    directed = 0
    cdir = os.path.join(boot.VERIF_DIR, "corpus", prop)
    if os.path.isdir(cdir):
        for name in sorted(os.listdir(cdir)):
            if not name.endswith(".json"):
                continue
            path = os.path.join(cdir, name)
            doc, res = replay_file(prop, path, known)
            directed += 1
            for h in res["known_hits"]:
                known_printed.setdefault(h["known"], h)
            if res["violations"]:
                v = res["violations"][0]
                print("violation (corpus %s): oracle=%s sig=%s\n  %s" % (name, v["oracle"], json.dumps(v["sig"], sort_keys=True), v["detail"]))
                print("VIOLATION property=%s replay=%s" % (prop, path))
                violations_out.append({"replay": path, "violation": v})
                exit_code = 1
    fdir = os.path.join(boot.VERIF_DIR, "findings")
    if os.path.isdir(fdir):
        for name in sorted(os.listdir(fdir)):
            if not (name.endswith(".json") and name.startswith(prop + "-")):
                continue
            path = os.path.join(fdir, name)
            doc, res = replay_file(prop, path, known)
            directed += 1
            for h in res["known_hits"]:
                known_printed.setdefault(h["known"], h)
            if res["violations"]:
                v = res["violations"][0]
                print("violation (finding file %s shows an unlisted violation): oracle=%s sig=%s\n  %s" % (name, v["oracle"], json.dumps(v["sig"], sort_keys=True), v["detail"]))
                print("VIOLATION property=%s replay=%s" % (prop, path))
                violations_out.append({"replay": path, "violation": v})
                exit_code = 1

    # ---- directed whole-database checks of the profile (e.g. C14: the shipped databases)
    if hasattr(profile, "directed"):
        for res in profile.directed(known):
            directed += 1
            for h in res["known_hits"]:
                known_printed.setdefault(h["known"], h)
            seen = set()
            for v in res["violations"]:
                key = (v["oracle"], json.dumps(v["sig"], sort_keys=True))
                if key in seen:
                    continue
                seen.add(key)
                print("violation (directed %s): oracle=%s sig=%s\n  %s" % (res.get("world"), v["oracle"], key[1], v["detail"]))
                path = write_replay(prop, "%s-directed-%s-%d.json" % (prop, res.get("world"), len(seen)), res["cfg"], [], v, {"directed": res.get("world")})
                print("VIOLATION property=%s replay=%s" % (prop, path))
                violations_out.append({"replay": path, "violation": v})
                exit_code = 1
            directed_info.append({"world": res.get("world"), "entities": res.get("entities"), "oracle_checks": res["oracle_checks"]})

    # ---- seeded search
    if args.tier == "quick":
        n_runs = args.runs or QUICK_RUNS.get(prop, 1000)
        budget = args.budget or float(os.environ.get("VERIF_BUDGET_S", "0") or 0) or 420.0
    else:
        n_runs = args.runs or 10 ** 9
        budget = args.budget or float(os.environ.get("VERIF_BUDGET_S", "0") or 0) or 900.0
    results, werrors = run_workers(prop, args.tier, args.workers, n_runs, budget, known, verif_seed, args.start_index)
    tot = merge(results)
    tot["harness"].extend(werrors)
    for kid, h in tot["known_hits"].items():
        known_printed.setdefault(kid, h)
    for kid in sorted(known_printed):
        print("KNOWN-FINDING: property=%s %s [%s]" % (prop, _what(known_entries, kid), kid))

    # ---- failures: minimise, confirm in a fresh interpreter, report
    seen_sigs = set()
    shrink_stats = []
    for fail in tot["failures"]:
        if "ops" not in fail:
            continue
        v0 = fail["violations"][0]
        key = (v0["oracle"], json.dumps(v0["sig"], sort_keys=True))
        if key in seen_sigs or len(seen_sigs) >= 3:
            continue
        seen_sigs.add(key)
        print("violation: seed=%d index=%d oracle=%s sig=%s step=%s\n  %s" % (fail["seed"], fail["index"], v0["oracle"], key[1], v0["step"], v0["detail"]))
        ops, cfg = fail["ops"], fail["cfg"]
        vmin = v0
        if not args.no_shrink:
            from sim.shrink import shrink

            ops2, v2, used = shrink(lambda c, o: runner.execute_ops(profile, c, o, known), cfg, ops, v0)
            if v2 is None:
                tot["harness"].append({"kind": "HARNESS-ERROR", "detail": "violation of seed %d did not reproduce from its recorded op list (determinism bug)" % fail["seed"]})
                continue
            shrink_stats.append({"seed": fail["seed"], "from": len(ops), "to": len(ops2), "executions": used})
            ops, vmin = ops2, v2
            print("  minimised %d -> %d ops (%d executions)" % (len(fail["ops"]), len(ops), used))
        name = "%s-%d.json" % (prop, fail["seed"])
        path = write_replay(prop, name, cfg, ops, vmin, {"seed": fail["seed"], "index": fail["index"], "tier": args.tier, "verif_seed": verif_seed})
        ok, out = confirm_fresh(prop, path)
        if not ok:
            tot["harness"].append({"kind": "HARNESS-ERROR", "detail": "minimised replay %s did not reproduce in a fresh interpreter:\n%s" % (path, out)})
            continue
        print("VIOLATION property=%s replay=%s" % (prop, path))
        violations_out.append({"replay": path, "violation": vmin})
        exit_code = 1

    for h in tot["harness"][:5]:
        print("%s: %s" % (h["kind"], h["detail"]))
    if tot["harness"] and exit_code == 0:
        exit_code = 2
    if tot["runs"] == 0 and exit_code == 0:
        print("HARNESS-ERROR: no run completed")
        exit_code = 2

    wall = time.time() - t_start
    if args.digests_out:
        with open(args.digests_out, "w") as f:
            json.dump({str(k): v for k, v in sorted(tot["digests"].items())}, f)
    if not args.no_evidence:
        write_evidence(prop, args.tier, verif_seed, profile, tot, wall, violations_out, known_printed, known_entries, directed, shrink_stats, args, directed_info)
    print(
        "summary: runs=%d steps=%d oracle_checks=%d distinct_histories=%d nontrivial=%d faults=%s violations=%d known=%d harness=%d wall=%.1fs"
        % (
            tot["runs"],
            tot["steps"],
            tot["oracle_checks"],
            len(tot["shapes_all"]),
            len(tot["shapes_nontrivial"]),
            json.dumps(tot["faults_fired"], sort_keys=True),
            len(violations_out),
            len(known_printed),
            len(tot["harness"]),
            wall,
        )
    )
    return exit_code


def _what(entries, kid):
    for e in entries:
        if e["id"] == kid:
            return e["what"]
    return kid


if __name__ == "__main__":
    sys.exit(main())
