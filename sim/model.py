"""
Small independent models used by the oracles.

dimension model (C05): built from registry look-ups `unit -> quantity type` only, none of the
arithmetic code: a quantity yields a vector {quantity type: exponent}.
"""

UNKNOWN = "Unknown"


def _db():
    from barril.units.unit_database import UnitDatabase

    return UnitDatabase.GetSingleton()


def quantity_of(v):
    import barril.units as u

    if isinstance(v, u.Quantity):
        return v
    if isinstance(v, (u.Scalar, u.Array, u.FractionScalar)):
        return v.GetQuantity()
    return None


def dim_vector(q):
    """{quantity type: exponent} from the composing units; None if a unit is not registered."""
    db = _db()
    vec = {}
    for _cat, ue in q.GetCategoryToUnitAndExps().items():
        unit, exp = ue[0], ue[1]
        qt = db.GetQuantityType(unit)
        if qt is None:
            return None
        vec[qt] = vec.get(qt, 0) + exp
    return {k: e for k, e in vec.items() if e != 0}


def incompatible(a, b):
    """True iff the statement of C05 obliges a rejection for +, -, <, <=, >, >= of a and b."""
    qa, qb = quantity_of(a), quantity_of(b)
    if qa is None or qb is None:
        return False
    va, vb = dim_vector(qa), dim_vector(qb)
    if va is None or vb is None:
        return False
    if not va or not vb:
        return False  # dimensionless operands accept anything by design
    if UNKNOWN in va or UNKNOWN in vb:
        return False
    # composing units that cancel inside one operand (m/cm) keep a non-empty unit list in barril
    # while the vector is empty: treated as dimensionless above.
    return va != vb


def is_simple_known(v):
    q = quantity_of(v)
    if q is None or q.IsDerived():
        return False
    qt = q.GetQuantityType()
    return bool(qt) and qt != UNKNOWN


# legacy spellings (data only; the rewriting itself is re-done here, not by barril's function)
LEGACY_TO_CURRENT = [
    ("1000ft3", "Mcf"),
    ("1000m3", "Mm3"),
    ("M(ft3)", "MMcf"),
    ("M(m3)", "MMm3"),
    ("k(ft3)", "Mcf"),
    ("Ns/m", "N.s/m"),
    ("lbmole", "lbmol"),
    ("gmole", "gmol"),
]


def current_spelling(unit):
    if not isinstance(unit, str):
        return unit
    for legacy, current in LEGACY_TO_CURRENT:
        unit = unit.replace(legacy, current)
    return unit


def unit_type(unit):
    """Quantity type owning `unit` (given in its current or in a legacy spelling), else None."""
    db = _db()
    qt = db.GetQuantityType(unit)
    if qt is None and isinstance(unit, str):
        qt = db.GetQuantityType(current_spelling(unit))
    return qt


def foreign_unit(v, unit):
    """True iff `unit` is a registered unit of another quantity type than simple object v's."""
    if not is_simple_known(v):
        return False
    db = _db()
    qt_u = unit_type(unit)
    if qt_u is None or qt_u == UNKNOWN:
        return False
    return qt_u != quantity_of(v).GetQuantityType()


def foreign_unit_for_derived(v, unit):
    """True iff v is a derived quantity with a non-empty dimension vector (no 'Unknown' in it) and
    `unit` is a registered unit whose quantity type alone is not that vector."""
    q = quantity_of(v)
    if q is None or not q.IsDerived():
        return False
    vec = dim_vector(q)
    if not vec or UNKNOWN in vec:
        return False
    qt_u = unit_type(unit)
    if qt_u is None or qt_u == UNKNOWN:
        return False
    return vec != {qt_u: 1}


def foreign_cat_unit(category, unit):
    db = _db()
    if not db.IsValidCategory(category):
        return False
    qt_c = db.GetCategoryQuantityType(category)
    qt_u = unit_type(unit)
    if qt_u is None or qt_c == UNKNOWN or qt_u == UNKNOWN:
        return False
    return qt_c != qt_u


def loud_classes():
    from barril.units.unit_database import UnitsError

    return (UnitsError, TypeError, ValueError)


def close(a, b, rel=1e-12):
    import math

    try:
        a = float(a)
        b = float(b)
    except Exception:
        return a == b
    if a == b:
        return True
    if math.isnan(a) and math.isnan(b):
        return True
    if math.isinf(a) or math.isinf(b):
        return a == b
    return abs(a - b) <= rel * max(abs(a), abs(b)) + 1e-300
