"""
Fork helpers. Every simulated execution runs in a child forked from a pristine image
(barril imported, default singleton built, nothing else touched) and reports through a pipe.
"""
import faulthandler
import os
import pickle
import select
import signal
import sys
import time
import traceback


class HarnessError(Exception):
    pass


class HarnessTimeout(HarnessError):
    pass


def _child_main(wfd, fn, args):
    try:
        try:
            faulthandler.enable(file=sys.stderr, all_threads=False)
        except Exception:
            pass
        try:
            res = ("ok", fn(*args))
        except BaseException:
            res = ("harness_error", traceback.format_exc())
        data = pickle.dumps(res, protocol=4)
        view = memoryview(data)
        while view:
            n = os.write(wfd, view[: 1 << 16])
            view = view[n:]
        os.close(wfd)
    except BaseException:
        try:
            traceback.print_exc()
        except Exception:
            pass
        os._exit(3)
    os._exit(0)


def run_in_child(fn, args=(), timeout=30.0):
    """Run fn(*args) in a forked child; return its (picklable) result.

    Raises HarnessTimeout / HarnessError; never lets a child failure look like a result."""
    rfd, wfd = os.pipe()
    sys.stdout.flush()
    sys.stderr.flush()
    pid = os.fork()
    if pid == 0:
        os.close(rfd)
        _child_main(wfd, fn, args)
        os._exit(4)
    os.close(wfd)
    chunks = []
    deadline = time.monotonic() + timeout  # harness watchdog only; never influences a run
    try:
        while True:
            left = deadline - time.monotonic()
            if left <= 0:
                try:
                    os.kill(pid, signal.SIGABRT)  # faulthandler dumps the stack
                    time.sleep(0.05)
                    os.kill(pid, signal.SIGKILL)
                except ProcessLookupError:
                    pass
                os.waitpid(pid, 0)
                raise HarnessTimeout("child exceeded %.1fs" % timeout)
            r, _, _ = select.select([rfd], [], [], min(left, 1.0))
            if r:
                b = os.read(rfd, 1 << 20)
                if not b:
                    break
                chunks.append(b)
    finally:
        os.close(rfd)
    _, status = os.waitpid(pid, 0)
    if not chunks:
        raise HarnessError("child died without a result (status %r)" % (status,))
    kind, payload = pickle.loads(b"".join(chunks))
    if kind == "harness_error":
        raise HarnessError(payload)
    return payload
