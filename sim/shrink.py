"""
Minimisation of a failing history: ddmin over the recorded op list (drop chunks, then single ops,
then simplify), each candidate executed in fresh children, kept iff the same oracle with the same
signature fires.  References are absolute step numbers, so deleting steps never renumbers anything.
"""
import copy
import time


def same_violation(result, target):
    for v in result.get("violations", []):
        if v["oracle"] == target["oracle"] and v["sig"] == target["sig"]:
            return v
    return None


def shrink(run, cfg, ops, target, max_execs=600, max_wall=240.0, log=None):
    """run(cfg, ops) -> result dict.  Returns (minimised ops, violation record, executions used)."""
    t0 = time.monotonic()
    execs = [0]

    def test(cand):
        if execs[0] >= max_execs or time.monotonic() - t0 > max_wall:
            return None
        execs[0] += 1
        try:
            res = run(cfg, cand)
        except Exception:
            return None
        return same_violation(res, target)

    best = list(ops)
    v = test(best)
    if v is None:
        return best, None, execs[0]
    best_v = v
    # 1. cut after the violating step
    cut = [o for o in best if o["i"] <= v["step"]]
    if len(cut) < len(best):
        vv = test(cut)
        if vv is not None:
            best, best_v = cut, vv
    # 2. ddmin
    n = 2
    while len(best) >= 2:
        chunk = max(1, len(best) // n)
        reduced = False
        for start in range(0, len(best), chunk):
            cand = best[:start] + best[start + chunk :]
            if not cand:
                continue
            vv = test(cand)
            if vv is not None:
                best, best_v = cand, vv
                n = max(n - 1, 2)
                reduced = True
                break
        if not reduced:
            if chunk == 1:
                break
            n = min(len(best), n * 2)
        if execs[0] >= max_execs or time.monotonic() - t0 > max_wall:
            break
    # 3. simplify: drop interrupts, then oracle-irrelevant keyword args stay as they are
    for idx in range(len(best)):
        if best[idx].get("intr") and execs[0] < max_execs:
            cand = copy.deepcopy(best)
            cand[idx].pop("intr")
            if cand[idx].get("f") == "F7.interrupt":
                cand[idx].pop("f")
            vv = test(cand)
            if vv is not None:
                best, best_v = cand, vv
    if log:
        log("shrunk %d -> %d ops in %d executions" % (len(ops), len(best), execs[0]))
    return best, best_v, execs[0]
