"""
KNOWN_FINDINGS.txt: genuine defects of the unchanged tree that are recorded rather than repaired.

  known: property=C14 id=KF-C14-1 oracle=C14.type_has_base sig={"case":"no_base_registered"} what=free text
  fixed: property=C15 <commit> <what failed>

A `known:` line suppresses exactly the violations whose oracle matches and whose signature
contains the listed key/values; anything else is still reported.  `fixed:` lines suppress nothing.
The file is only ever read.
"""
import json
import os
import re

from .boot import VERIF_DIR

PATH = os.path.join(VERIF_DIR, "KNOWN_FINDINGS.txt")

_LINE = re.compile(r"^known:\s+property=(\S+)\s+id=(\S+)\s+oracle=(\S+)\s+sig=(\{.*?\})\s+what=(.*)$")


def load(prop=None):
    out = []
    if not os.path.exists(PATH):
        return out
    for line in open(PATH):
        line = line.strip()
        m = _LINE.match(line)
        if not m:
            continue
        p, kid, oracle, sig, what = m.groups()
        if prop is not None and p != prop:
            continue
        out.append({"property": p, "id": kid, "oracle": oracle, "sig": json.loads(sig), "what": what})
    return out


def as_tuples(entries):
    return [(e["oracle"], e["sig"], e["id"]) for e in entries]
