"""
Executions of one history and the cross-execution oracles.

FULL     every op (generated online from the run's PRNG, or replayed from a list)
NF       the same recorded list with every fault op removed, in a fresh child
RESTART  successor child forked from the pristine image continues from pickles

All functions named child_* run inside a forked child of the pristine image.
"""
import pickle
import random

from . import fp as F
from .engine import ListSource, Restart, Sim, StopRun, run_history
from .proc import run_in_child

RUN_TIMEOUT = 20.0


def src_prefix():
    from .boot import src_dir

    return src_dir() + "/"


# ------------------------------------------------------------------------------------ children


def _pack(profile, sim, source):
    """Durable state at a restart = pickle bytes of every picklable pool object."""
    import barril.units as u

    pool = {}
    before = {}
    lost = 0
    for i, v in sim.live():
        durable = isinstance(v, (u.Quantity, u.Scalar, u.FixedArray))
        if durable:
            try:
                pool[i] = pickle.dumps(v, protocol=pickle.HIGHEST_PROTOCOL)
                before[i] = F.fp(v)
                if isinstance(v, u.Quantity):
                    before[i] = ["Qfull", F.qfp_full(v)]
            except Exception as e:
                pool[i] = ("pickle_failed", type(e).__name__, type(v).__name__)
        else:
            lost += 1
    sim.finish()  # end-of-epoch checks (immutability of everything seen so far)
    res = sim.result()
    return {
        "cont": True,
        "partial": res,
        "pool": pool,
        "before": before,
        "lost": lost,
        "source": pickle.dumps(source),
        "user": {k: v for k, v in sim.user.items() if not k.startswith("_")},
        "epoch": sim.epoch + 1,
    }


def _unpack(profile, sim, state):
    import barril.units as u

    part = state["partial"]
    sim.ops = list(part["ops"])
    sim.log = list(part["log"])
    sim.stats = dict(part["stats"])
    sim.faults_fired = dict(part["faults_fired"])
    sim.oracle_checks = part["oracle_checks"]
    sim.known_hits = list(part["known_hits"])
    sim.tainted = set(part["tainted"])
    sim.peer_steps = set(part.get("peer_fired", []))
    sim.intr_fired = set(part.get("intr_fired", []))
    sim.user.update(state["user"])
    sim.epoch = state["epoch"]
    sim.fired("F5.restart")
    sim.count("restart_lost_objects", state["lost"])
    step = sim.ops[-1]["i"] if sim.ops else 0
    # the registrations accepted before the restart belong to the application's start-up: the
    # successor process registers the same things again before it loads anything
    from .ops import Codec, call_op

    for rop in state["user"].get("dyn_regs", []):
        thunk, _t, _a, _kw = call_op(Codec({}), rop)
        thunk()
    for i in sorted(state["pool"]):
        blob = state["pool"][i]
        if isinstance(blob, tuple):
            sim.violation(
                profile.prop + ".restart_equal" if profile.prop != "C11" else "C11.restart_dimension",
                {"case": "pickle_failed", "class": blob[2]},
                step,
                "pickling raised %s" % blob[1],
            )
            continue
        try:
            v = pickle.loads(blob)
        except Exception as e:
            sim.violation(
                profile.prop + ".restart_equal" if profile.prop != "C11" else "C11.restart_dimension",
                {"case": "unpickle_failed", "class": "?"},
                step,
                "unpickling after restart raised %r" % (e,),
            )
            continue
        sim.pool[i] = ("ok", v)
        sim.count("restart_restored_objects")
        now = ["Qfull", F.qfp_full(v)] if isinstance(v, u.Quantity) else F.fp(v)
        profile.restart_check(sim, i, v, state["before"][i], now, step)


def child_full(profile, seed, tier, known, state=None):
    """Generate + execute (or continue after a restart)."""
    if state is None:
        rng = random.Random(seed)
        cfg = profile.draw_cfg(rng, tier)
        cfg["seed"] = seed
        profile.setup_world(cfg)
        sim = profile.make_sim(cfg, known)
        source = profile.make_gen(rng, cfg)
    else:
        cfg = state["partial"]["cfg"]
        profile.setup_world(cfg)
        sim = profile.make_sim(cfg, known)
        source = pickle.loads(state["source"])
        try:
            _unpack(profile, sim, state)
        except StopRun:
            return sim.result()
    try:
        run_history(sim, source, cfg["n_steps"] + 8)
    except Restart:
        try:
            return _pack(profile, sim, source)
        except StopRun:
            pass
    return sim.result()


def child_replay(profile, cfg, ops, known, drop_faults=False, state=None):
    if state is None:
        profile.setup_world(cfg)
        sim = profile.make_sim(cfg, known)
        source = ListSource(ops, 0, drop_faults)
    else:
        profile.setup_world(cfg)
        sim = profile.make_sim(cfg, known)
        source = pickle.loads(state["source"])
        try:
            _unpack(profile, sim, state)
        except StopRun:
            return sim.result()
    try:
        run_history(sim, source, len(ops) + 8)
    except Restart:
        try:
            return _pack(profile, sim, source)
        except StopRun:
            pass
    return sim.result()


# ------------------------------------------------------------------------------------ worker side


def _drive(fn, args):
    """Run a child and its successors across restarts; returns the final result."""
    res = run_in_child(fn, args, timeout=RUN_TIMEOUT)
    hops = 0
    first = None
    while res.get("cont"):
        hops += 1
        if hops > 6:
            raise RuntimeError("too many restarts")
        if first is None:
            # durable state of the first restart, for profiles that also load it into a fresh interpreter
            first = {
                "items": [(i, blob, res["before"][i]) for i, blob in sorted(res["pool"].items()) if not isinstance(blob, tuple)],
                "dyn_regs": res["user"].get("dyn_regs", []),
                "step": res["partial"]["ops"][-1]["i"] if res["partial"]["ops"] else 0,
            }
        # never mutate: pass the continuation to a fresh child of the pristine image
        res = run_in_child(fn, args[:-1] + (res,), timeout=RUN_TIMEOUT)
    if first is not None and first["items"]:
        res["first_restart"] = first
    return res


def child_cover(profile, cfg, ops, known):
    """Reach probe: replays a recorded history with a line tracer and returns the set of executed
    (file, line) pairs of the barril sources (tests excluded).  Never part of a verdict."""
    import sys

    prefix = src_prefix()
    seen = set()

    def local(frame, event, arg):
        if event == "line":
            seen.add((frame.f_code.co_filename, frame.f_lineno))
        return local

    def glob(frame, event, arg):
        fn = frame.f_code.co_filename
        if fn.startswith(prefix) and "/_tests/" not in fn:
            seen.add((fn, frame.f_lineno))
            return local
        return None

    profile.setup_world(cfg)
    sim = profile.make_sim(cfg, known)
    sim.stop_on_violation = False
    plain = [{k: v for k, v in o.items() if k not in ("intr", "sweep", "probes")} for o in ops if o["k"] != "flt.restart"]
    source = ListSource(plain, 0, False)
    sys.settrace(glob)
    try:
        run_history(sim, source, len(plain) + 8)
    except Exception:
        pass
    finally:
        sys.settrace(None)
    return sorted((f[len(prefix) :], l) for f, l in seen)


def execute_seed(profile, seed, tier, known):
    """All executions for one generated run; returns a result dict with every violation found."""
    full = _drive(child_full, (profile, seed, tier, known, None))
    return _cross(profile, full, known)


def execute_ops(profile, cfg, ops, known):
    """All executions for one recorded history (replay / shrink candidates)."""
    full = _drive(child_replay, (profile, cfg, ops, known, False, None))
    return _cross(profile, full, known)


def _cross(profile, full, known):
    full["execs"] = {"FULL": 1}
    if full["violations"]:
        return full
    extra = profile.cross_executions(full, known)
    if extra:
        full["violations"].extend(extra.get("violations", []))
        for k, v in extra.get("execs", {}).items():
            full["execs"][k] = full["execs"].get(k, 0) + v
        full["oracle_checks"] += extra.get("oracle_checks", 0)
        for h in extra.get("known_hits", []):
            if h.get("known") not in [x.get("known") for x in full["known_hits"]]:
                full["known_hits"].append(h)
    return full


def nf_diff(profile, full, known, oracle):
    """'Later valid operations behave as if it had not happened': compare the outcome of every
    op present in both the FULL and the no-fault execution."""
    ops = full["ops"]
    if not any(o.get("f") for o in ops):
        return None
    # the steps at which a peer fault was DELIVERED (not: every step whose object met one later -
    # an op that merely carried an undelivered F2 tag completed and stays in the fault-free history)
    tainted0 = set(full.get("peer_fired", full["tainted"]))
    # an interrupt that was delivered counts even if the call went on to return something (numpy
    # swallows exceptions raised while it probes an operand; barril has one bare `except:`)
    took_effect = set(full.get("intr_fired", []))
    for o, e in zip(ops, full["log"]):
        f = o.get("f") or ""
        if e[3] in ("intr", "restart", "sweep_violation"):
            took_effect.add(o["i"])
        elif f.startswith("F1.") or f.startswith("F3.") or f.startswith("F5."):
            took_effect.add(o["i"])
        elif f.startswith("F2.") and (o["i"] in tainted0 or e[3] == "exc"):
            took_effect.add(o["i"])
    nf = _drive(child_replay, (profile, full["cfg"], ops, known, frozenset(took_effect), None))
    out = {"violations": [], "execs": {"NF": 1}, "oracle_checks": 0, "known_hits": []}
    if nf["violations"]:
        # the fault-free execution itself violates a step monitor: an ordinary bug the faults did not hide
        for v in nf["violations"]:
            v = dict(v)
            v["detail"] = "[in NF execution] " + v["detail"]
            out["violations"].append(v)
        return out
    tainted = set(full["tainted"])
    # after an interrupted registration the two executions legitimately live on different
    # databases (it may or may not have taken effect): nothing later is compared
    cut = min([o["i"] for o in ops if o.get("intr") and (o.get("reg") or o["k"].startswith("reg."))] or [10 ** 9])
    a = {e[0]: e for e in full["log"]}
    b = {e[0]: e for e in nf["log"]}
    opmap = {o["i"]: o for o in ops}
    for i in sorted(a):
        if i not in b or i >= cut:
            continue
        ea, eb = a[i], b[i]
        if ea[3] == "skip" or eb[3] == "skip" or ea[3] == "intr":
            continue
        if i in tainted or _touches(opmap[i], tainted):
            continue
        out["oracle_checks"] += 1
        if ea[3] != eb[3] or ea[4] != eb[4]:
            prev_fault = None
            for j in sorted(a):
                if j >= i:
                    break
                if a[j][2]:
                    prev_fault = a[j]
            rec = {
                "oracle": oracle,
                "sig": {
                    "op": ea[1],
                    "after_fault": prev_fault[2] if prev_fault else None,
                    "after_kind": _short(prev_fault[1]) if prev_fault else None,
                },
                "step": i,
                "detail": "step %s %s: with faults %s %r, without faults %s %r"
                % (i, ea[1], ea[3], ea[4], eb[3], eb[4]),
            }
            hit = False
            for k_oracle, k_sig, k_id in known:
                if k_oracle == oracle and all(rec["sig"].get(x) == y for x, y in k_sig.items()):
                    rec["known"] = k_id
                    out["known_hits"].append(rec)
                    hit = True
            if not hit:
                out["violations"].append(rec)
                break
    return out


def _short(k):
    return ".".join(k.split(".")[:3])


def _touches(op, tainted):
    for a in list(op.get("a", [])) + list(op.get("kw", {}).values()) + [op["t"]]:
        if isinstance(a, dict) and a.get("ref") in tainted:
            return True
    return False
