"""
Canonical fingerprints of outcomes (JSON-able, hash-seed independent, no ids, no messages).

Only public getters of barril objects are used.  Floats are compared bit-exactly (float.hex):
all executions of one history run the same code on the same machine.
"""
from collections import OrderedDict

import numpy

from barril.basic.fraction import Fraction, FractionValue
from barril.curve.curve import Curve
from barril.units import Array, FixedArray, FractionScalar, Quantity, Scalar
from barril.units.unit_database import CategoryInfo, UnitInfo
from barril.units.unit_system import UnitSystem

MAX_DEPTH = 8


def _num(v):
    if isinstance(v, bool):
        return v
    if isinstance(v, int):
        return v
    if isinstance(v, float):
        return ["f", v.hex()]
    if isinstance(v, numpy.generic):
        try:
            return ["np", v.dtype.name, _num(v.item())]
        except Exception:
            return ["np", v.dtype.name, repr(v)]
    if isinstance(v, complex):
        return ["c", v.real.hex(), v.imag.hex()]
    return None


def qfp(q):
    """Cheap, side-effect free fingerprint of a Quantity through pure getters."""
    m = q.GetCategoryToUnitAndExps()
    return [
        q.GetCategory(),
        q.GetQuantityType(),
        q.GetUnit(),
        q.GetUnknownCaption(),
        bool(q.IsDerived()),
        [[c, ue[0], ue[1]] for c, ue in m.items()],
    ]


def qfp_full(q):
    """All public getters (fills the lazy slots: hash and joined exponents)."""
    cu = q.GetComposingUnits()
    cc = q.GetComposingCategories()
    info = q.GetCategoryInfo()
    return qfp(q) + [
        fp(cu),
        fp(cc),
        fp(q.GetComposingUnitsJoiningExponents()),
        q.GetUnitCaption(),
        [info.category, info.quantity_type] if info is not None else None,
        repr(q),
    ]


def fp(v, depth=0):
    if depth > MAX_DEPTH:
        return ["deep"]
    if v is None or isinstance(v, str):
        return v
    n = _num(v)
    if n is not None:
        return n
    if isinstance(v, bytes):
        return ["b", v.hex()]
    if isinstance(v, numpy.ndarray):
        try:
            flat = v.ravel().tolist()
        except Exception:
            flat = []
        return ["nd", v.dtype.name, list(v.shape), [fp(x, depth + 1) for x in flat]]
    if isinstance(v, Quantity):
        return ["Q"] + qfp(v)
    if isinstance(v, Scalar):
        return ["S", qfp(v.GetQuantity()), fp(v.GetValue(), depth + 1)]
    if isinstance(v, FixedArray):
        return ["FA", fp(v.dimension), qfp(v.GetQuantity()), fp(v.GetValues(), depth + 1)]
    if isinstance(v, Array):
        return ["A", qfp(v.GetQuantity()), fp(v.GetValues(), depth + 1)]
    if isinstance(v, FractionScalar):
        return ["FS", qfp(v.GetQuantity()), fp(v.GetValue(), depth + 1)]
    if isinstance(v, FractionValue):
        return ["FV", fp(v.GetNumber()), fp(v.GetFraction(), depth + 1)]
    if isinstance(v, Fraction):
        return ["FR", fp(v.numerator), fp(v.denominator)]
    if isinstance(v, Curve):
        return ["CV", fp(v.GetImage(), depth + 1), fp(v.GetDomain(), depth + 1)]
    if isinstance(v, CategoryInfo):
        return [
            "CI",
            v.category,
            v.quantity_type,
            fp(v.valid_units, depth + 1),
            v.default_unit,
            fp(v.default_value),
            fp(v.min_value),
            fp(v.max_value),
            bool(v.is_min_exclusive),
            bool(v.is_max_exclusive),
            v.caption,
        ]
    if isinstance(v, UnitInfo):
        return ["UI", v.quantity_type, v.name, v.unit, v.default_category]
    if isinstance(v, UnitSystem):
        return [
            "US",
            v.GetId(),
            v.GetCaption(),
            [[k, v.GetUnitsMapping()[k]] for k in sorted(v.GetUnitsMapping(), key=repr)],
            bool(v.IsReadOnly()),
        ]
    if isinstance(v, (list, tuple)):
        return ["L" if isinstance(v, list) else "T", [fp(x, depth + 1) for x in v]]
    if isinstance(v, (dict, OrderedDict)):
        return ["D", [[fp(k, depth + 1), fp(x, depth + 1)] for k, x in v.items()]]
    if isinstance(v, (set, frozenset)):
        return ["SET", sorted((fp(x, depth + 1) for x in v), key=repr)]
    if isinstance(v, type):
        return ["type", v.__name__]
    if isinstance(v, BaseException):
        return ["exc", type(v).__name__]
    if hasattr(v, "_sim_fp"):
        return v._sim_fp()
    return ["obj", type(v).__name__]


def exc_fp(e):
    return ["exc", type(e).__name__]
