"""
C14 — the unit registry stays well-formed under any registration history.

Seeded registration histories (about half of the calls must be rejected) over small name pools
with deliberate collisions, executed on the real UnitDatabase and on a small reference model in
lock-step; invariants, "honoured", atomicity and usability are evaluated after every step.
"""
import math

from .. import fp as F
from .. import monitors as Mon
from ..engine import Sim
from ..oracles import PropFilter
from ..runner import src_prefix

TYPES = {
    "len": [("m", "metre", None), ("cm", "centimetre", 0.01), ("km", "kilometre", 1000.0), ("mm", "millimetre", 0.001), ("dm", "decimetre", 0.1)],
    "tim": [("s", "second", None), ("min", "minute", 60.0), ("h", "hour", 3600.0), ("cyc/s", "cycles per second", "recip:1.0")],
    "amt": [("mol", "mole", None), ("lbmol", "pound-mole", 453.59237), ("gmol", "gram-mole", 1.0), ("kmol", "kilomole", 1000.0)],
    "dmp": [("Ns/m", "newton second per metre", None), ("kNs/m", "kilonewton second per metre", 1000.0), ("lbmole.s", "made-up", 2.0)],
    "tmp": [("K", "kelvin", None), ("degX", "degree X", (1.0, 273.15)), ("degY", "degree Y", (5.0 / 9.0, 255.0))],
}
LEGACY_OF = {"lbmol": "lbmole", "gmol": "gmole"}
CATS = ["len", "depth", "tim", "amt", "moles", "span", "tmp", "len alias", "dmp"]
NOPE_T, NOPE_U, NOPE_C = "no such type", "nope", "no such category"


BYSTANDER = None


def _bystander_digest():
    """Cheap structural digest of the bystander database (its own tables; asks it nothing)."""
    db = BYSTANDER
    if db is None or db is _db():
        return None
    return (
        len(db.unit_to_unit_info),
        len(db.categories_to_quantity_types),
        tuple((t, len(infos), infos[-1].unit if infos else None) for t, infos in db.quantity_types.items()),
    )


def _db():
    from barril.units.unit_database import UnitDatabase

    return UnitDatabase.GetSingleton()


def pool_types(cfg):
    """{type: [(unit, name, factor | (a, b) | None=base)]}: the run's own pools or the defaults."""
    return cfg.get("pool_types") or TYPES


# ------------------------------------------------------------------------------------ generator


class RegGen:
    def __init__(self, rng, cfg):
        self.rng = rng
        self.cfg = cfg
        self.i = 0
        self.n = 0
        self.types = cfg["types"]
        self.cats = cfg["cats"]
        self.T = pool_types(cfg)
        self.bad_rate = cfg.get("bad_rate", 1.0)
        self.pre = None

    def preamble(self):
        """A scripted, valid population (bases, units, the type-named categories) issued as ordinary
        recorded registrations, so that the seeded part of the history starts on a database that is
        in use (re-registrations, copies and overrides then have something to act upon)."""
        ops = []
        for t in self.types:
            (u0, n0, _k0) = tuple(self.T[t][0])
            ops.append(self._op("reg.AddUnitBase", "AddUnitBase", [t, n0, u0], reg={"kind": "AddUnitBase", "type": t, "unit": u0, "name": n0}))
            for u, name, k in self.T[t][1:]:
                k = tuple(k) if isinstance(k, list) else k
                fb, tb = self.conv(k)
                ops.append(self._op("reg.AddUnit", "AddUnit", [t, name, u, fb, tb], reg={"kind": "AddUnit", "type": t, "unit": u, "name": name, "k": list(k) if isinstance(k, tuple) else k, "default_category": None, "bad": None}))
            if t in self.cats:
                ops.append(self._op("reg.AddCategory", "AddCategory", [t, t], reg={"kind": "AddCategory", "category": t, "kw": {"quantity_type": t}}))
        return ops

    def units_of(self, t):
        return [u for u, _, _ in self.T[t]]

    def all_units(self):
        return [u for t in self.types for u in self.units_of(t)]

    def conv(self, k):
        """(frombase, tobase) for factor k (unit = k base units) or affine (a, b): base = x*a + b."""
        r = self.rng.random()
        pc = self.cfg.get("callable_prob", 0.3)
        if isinstance(k, str):  # "recip:<a>": base = a / x, its own inverse; fails for the amount 0
            if r < 0.5:
                return {"call": k}, {"call": k}
            a = float(k.split(":")[1])
            return "%r / %%f" % a, "%r / %%f" % a
        if isinstance(k, tuple):
            a, b = k
            if r >= pc:
                return "(%%f - %r) / %r" % (b, a), "%%f * %r + %r" % (a, b)
            return {"call": "inv_aff:%r:%r" % (a, b)}, {"call": "aff:%r:%r" % (a, b)}
        if r < pc:
            return {"call": "div:%r" % k}, {"call": "mul:%r" % k}
        if r < pc + (1 - pc) * 0.65:
            return "%%f / %r" % k, "%%f * %r" % k
        return "x / %r" % k, "x * %r" % k

    def __call__(self, sim):
        if self.n >= self.cfg["n_steps"]:
            return None
        self.n += 1
        rng = self.rng
        model = sim.user["model"]
        w = self.cfg["weights"]
        if self.cfg.get("preamble") and self.cfg["world"] == "W-SYN":
            if self.pre is None:
                self.pre = self.preamble()
            if self.pre:
                op = self.pre.pop(0)
                op["i"] = self.i
                self.i += 1
                return op
        if getattr(self, "plan", None):
            op = self.plan.pop(0)
            op["i"] = self.i
            self.i += 1
            return op
        kind = rng.choices(["base", "unit", "cat", "clear", "user"], weights=[w["base"], w["unit"], w["cat"], w["clear"], w["user"]])[0]
        op = getattr(self, "g_" + kind)(sim, model)
        op["i"] = self.i
        self.i += 1
        return op

    def _op(self, k, m, a=(), kw=None, reg=None, c="registrar", t="db"):
        d = {"k": k, "t": t, "m": m, "a": list(a), "c": c}
        if kw:
            d["kw"] = kw
        if reg is not None:
            d["reg"] = reg
        return d

    def g_base(self, sim, model):
        rng = self.rng
        t = rng.choice(self.types)
        cands = [tuple(x) for x in self.T[t]]
        u, name, _k = cands[0] if rng.random() < 0.6 else rng.choice(cands)
        if rng.random() < 0.08 * self.bad_rate:
            u = rng.choice(self.all_units())  # possibly a symbol of another type
        arg = u
        if rng.random() < 0.05 * self.bad_rate:
            arg = {"np": u, "dt": "str_"}  # a str subclass as symbol
        return self._op("reg.AddUnitBase", "AddUnitBase", [t, name, arg], reg={"kind": "AddUnitBase", "type": t, "unit": u, "name": name})

    def g_unit(self, sim, model):
        rng = self.rng
        t = rng.choice(self.types)
        u, name, k = rng.choice(self.T[t])
        if isinstance(k, list):
            k = tuple(k)
        if k is None:
            k = 1.0
        r = rng.random()
        if r < 0.1 * self.bad_rate:
            u = rng.choice(self.all_units())  # cross-type collision
        fb, tb = self.conv(k)
        bad = None
        if r > 1.0 - 0.1 * self.bad_rate:
            bad = rng.choice(["no_x", "syntax", "unit_none", "unit_int", "unit_npstr", "unit_npstr"])
            if bad == "no_x":
                fb = "100.0"
            elif bad == "syntax":
                tb = "%f * * 2"
        dc = None
        if rng.random() < 0.35:
            dc = rng.choice(self.cats + [NOPE_C])
        a = [t, name, u, fb, tb]
        if bad == "unit_none":
            a[2] = None
        elif bad == "unit_int":
            a[2] = 7
        unit_for_model = a[2]
        if bad == "unit_npstr":
            # a str SUBCLASS as symbol (numpy.str_): whatever the call answers, everything registered
            # must still build a Scalar afterwards
            a[2] = {"np": u, "dt": "str_"}
            unit_for_model = u
        kw = {"default_category": dc} if dc is not None else None
        return self._op(
            "reg.AddUnit",
            "AddUnit",
            a,
            kw=kw,
            reg={"kind": "AddUnit", "type": t, "unit": unit_for_model, "name": name, "k": list(k) if isinstance(k, tuple) else k, "default_category": dc, "bad": bad},
        )

    def g_cat(self, sim, model):
        rng = self.rng
        c = rng.choice(self.cats)
        reg = {"kind": "AddCategory", "category": c}
        kw = {}
        registered = [x for x in self.cats if x in model.cats and model.cats[x].get("type") in self.types]
        if registered and rng.random() < 0.2:
            # a category that is in use is registered again (override) with the same quantity type
            # but other limits / default unit: everything built afterwards must carry the new one
            c = rng.choice(registered)
            t = model.cats[c]["type"]
            units_t = [u for u in self.units_of(t) if u in model.units] if t in self.T else []
            reg = {"kind": "AddCategory", "category": c}
            kw = {"override": True}
            lo, hi = rng.choice([(None, None), (0.0, None), (None, 100.0), (0.0, 100.0), (-10.0, 10.0), (1.0, 5.0)])
            if lo is not None:
                kw["min_value"] = lo
            if hi is not None:
                kw["max_value"] = hi
            if units_t and rng.random() < 0.6:
                kw["default_unit"] = rng.choice(units_t)
            if rng.random() < 0.3:
                kw["caption"] = "x"
            a = [c, t]
            reg["kw"] = dict(kw, quantity_type=t)
            return self._op("reg.AddCategory", "AddCategory", a, kw=kw, reg=reg)
        use_from = rng.random() < 0.25
        t = None
        if use_from:
            src = rng.choice(self.cats + [NOPE_C]) if rng.random() < 1 - 0.15 * self.bad_rate else NOPE_C
            kw["from_category"] = src
            if rng.random() < 0.1 * self.bad_rate:
                kw["quantity_type"] = rng.choice(self.types)  # both given: must be rejected
            t = model.cats.get(src, {}).get("type")
        else:
            t = rng.choice(self.types) if rng.random() < 1 - 0.07 * self.bad_rate else NOPE_T
            if c in self.types and rng.random() < 0.5:
                t = c  # the category named after the quantity type: the units' fall-back default category
            if rng.random() < 0.04 * self.bad_rate:
                t = None  # neither quantity_type nor from_category
        units_t = self.units_of(t) if t in self.T else ["m", "s"]
        reg_units = [u for u in units_t if u in model.units] or units_t
        if rng.random() < 0.45:
            k = rng.randint(0, min(3, len(reg_units)))
            vu = []
            for _ in range(k):
                u = rng.choice(reg_units)
                if u in LEGACY_OF and rng.random() < 0.5:
                    u = LEGACY_OF[u]
                if u not in vu:
                    vu.append(u)
            if rng.random() < 0.15 * self.bad_rate:
                vu.append(rng.choice([u for u in self.all_units() if u not in units_t] or [NOPE_U]))
            kw["valid_units"] = {"L": vu}
        if rng.random() < 0.4:
            kw["override"] = rng.random() < 0.7
        if rng.random() < 0.4:
            u = rng.choice(reg_units)
            if u in LEGACY_OF and rng.random() < 0.4:
                u = LEGACY_OF[u]
            if rng.random() < 0.15 * self.bad_rate:
                u = rng.choice([x for x in self.all_units() if x not in units_t] or [NOPE_U])
            kw["default_unit"] = u
        lo = hi = None
        if rng.random() < 0.4:
            lo = rng.choice([0.0, -10.0, 1.0, 5.0])
            kw["min_value"] = lo
        if rng.random() < 0.4:
            hi = rng.choice([100.0, 10.0, 0.0, -20.0, 5.0])
            kw["max_value"] = hi
        if rng.random() < 0.2:
            kw["is_min_exclusive"] = True
        if rng.random() < 0.2:
            kw["is_max_exclusive"] = True
        if rng.random() < 0.45:
            kw["default_value"] = rng.choice([0.0, 1.0, 5.0, -5.0, 50.0, 100.0, 1000.0, -10.0])
        if rng.random() < 0.2:
            kw["caption"] = rng.choice(["Custom Caption", "x"])
        a = [c]
        if not use_from or "quantity_type" in kw:
            qt = kw.pop("quantity_type", t)
            if rng.random() < 0.5:
                a.append(qt)
            else:
                kw["quantity_type"] = qt
        reg["kw"] = {k: (v["L"] if isinstance(v, dict) else v) for k, v in kw.items()}
        if len(a) > 1:
            reg["kw"]["quantity_type"] = a[1]
        return self._op("reg.AddCategory", "AddCategory", a, kw=kw, reg=reg)

    def g_clear(self, sim, model):
        rng = self.rng
        if self.cfg["world"] == "W-SYN" and rng.random() < 0.6:
            # an application switches its unit table: after Clear() one quantity type comes back
            # with as many units as before but other symbols; categories are then requested over
            # the symbols that are gone and over the ones that came
            for t in rng.sample(list(self.types), len(self.types)):
                old = list(model.types[t]["order"]) if t in model.types else []
                pool = [tuple(x) for x in self.T[t]]
                if len(old) < 2 or len(pool) <= len(old) or not all(u in [x[0] for x in pool] for u in old):
                    continue
                new = None
                for _try in range(8):
                    cand = rng.sample(pool, len(old))
                    if set(x[0] for x in cand) != set(old):
                        new = cand
                        break
                if new is None:
                    continue
                plan = []
                (u0, n0, _k0) = new[0]
                plan.append(self._op("reg.AddUnitBase", "AddUnitBase", [t, n0, u0], reg={"kind": "AddUnitBase", "type": t, "unit": u0, "name": n0}))
                for u, name, k in new[1:]:
                    k = tuple(k) if isinstance(k, list) else (1.0 if k is None else k)
                    fb, tb = self.conv(k)
                    plan.append(self._op("reg.AddUnit", "AddUnit", [t, name, u, fb, tb], reg={"kind": "AddUnit", "type": t, "unit": u, "name": name, "k": list(k) if isinstance(k, tuple) else k, "default_category": None, "bad": None}))
                gone = [u for u in old if u not in [x[0] for x in new]]
                came = [x[0] for x in new if x[0] not in old]
                c = rng.choice(self.cats)
                reqs = []
                if gone:
                    reqs.append({"valid_units": [gone[0]]})
                    reqs.append({"default_unit": gone[0]})
                if came:
                    reqs.append({"valid_units": [came[0], u0] if came[0] != u0 else [u0]})
                    reqs.append({"default_unit": came[0], "override": True})
                rng.shuffle(reqs)
                for kwm in reqs:
                    kw = {k: ({"L": v} if isinstance(v, list) else v) for k, v in kwm.items()}
                    plan.append(self._op("reg.AddCategory", "AddCategory", [c, t], kw=kw, reg={"kind": "AddCategory", "category": c, "kw": dict(kwm, quantity_type=t)}))
                self.plan = plan
                break
        return self._op("reg.Clear", "Clear", [], reg={"kind": "Clear"})

    def g_user(self, sim, model):
        """A user builds values from what is (or is about to be) registered: read-only."""
        rng = self.rng
        t = rng.choice(self.types)
        u = rng.choice(self.units_of(t))
        c = rng.choice(self.cats)
        r = rng.random()
        if r < 0.3:
            return self._op("user.Scalar.vuc", "()", [1.0, u, c], c="user", t="Scalar")
        if r < 0.45:
            return self._op("user.Scalar.c", "()", [c], c="user", t="Scalar")
        if r < 0.6:
            return self._op("user.Scalar.vu", "()", [2.0, u], c="user", t="Scalar")
        if r < 0.75:
            u2 = rng.choice(self.units_of(t))
            return self._op("user.db.Convert", "Convert", [t if rng.random() < 0.5 else c, u, u2, 3.0], c="user")
        if r < 0.85:
            return self._op("user.db.CheckCategoryUnit", "CheckCategoryUnit", [c, u], c="user")
        if r < 0.93:
            return self._op("user.db.GetValidUnits", "GetValidUnits", [c], c="user")
        return self._op("user.ObtainQuantity", "ObtainQuantity", [u, c], c="user", t="units")


# ------------------------------------------------------------------------------------ model


def fix_legacy(u):
    for leg, cur in (("lbmole", "lbmol"), ("gmole", "gmol")):
        if isinstance(u, str):
            u = u.replace(leg, cur)
    return u


class RegModel:
    """Mirrors only what the statement fixes."""

    def __init__(self):
        self.units = {}  # unit -> {"type", "name", "dc"}
        self.types = {}  # type -> {"order": [...], "bases": [...]}
        self.cats = {}  # cat -> {"type", + explicitly requested fields}
        self.preexisting_types = set()

    @classmethod
    def from_db(cls, db):
        m = cls()
        for t in db.GetQuantityTypes():
            us = list(db.GetUnits(t))
            m.types[t] = {"order": us, "bases": [us[0]] if us else []}
            m.preexisting_types.add(t)
            for u, n in zip(us, db.GetUnitNames(t)):
                m.units[u] = {"type": t, "name": n, "dc": None}
        for c in db.IterCategories():
            m.cats[c] = {"type": db.GetCategoryQuantityType(c)}
        return m

    def apply(self, reg):
        k = reg["kind"]
        if k == "Clear":
            self.units, self.types, self.cats = {}, {}, {}
            self.preexisting_types = set()
        elif k in ("AddUnit", "AddUnitBase"):
            t, u = reg["type"], reg["unit"]
            self.units[u] = {"type": t, "name": reg["name"], "dc": reg.get("default_category"), "inrun": True}
            ent = self.types.setdefault(t, {"order": [], "bases": []})
            if k == "AddUnitBase":
                ent["order"].insert(0, u)
                ent["bases"].append(u)
            else:
                ent["order"].append(u)
        elif k == "AddCategory":
            kw = reg["kw"]
            src = self.cats.get(kw.get("from_category")) if kw.get("from_category") else None
            ent = {"type": kw.get("quantity_type") if src is None else src["type"]}
            for f in ("valid_units", "default_unit", "default_value", "min_value", "max_value", "caption"):
                if kw.get(f) is not None and not (f == "caption" and not kw.get(f)):
                    ent[f] = kw[f]
                elif src is not None and f in src and f != "caption":
                    ent[f] = src[f]
            for f in ("is_min_exclusive", "is_max_exclusive"):
                ent[f] = bool(kw.get(f, False))
            if "valid_units" in ent:
                ent["valid_units"] = [fix_legacy(u) for u in ent["valid_units"]]
            if "default_unit" in ent:
                ent["default_unit"] = fix_legacy(ent["default_unit"])
            self.cats[reg["category"]] = ent


# ------------------------------------------------------------------------------------ monitor

PROBE_X = (0.0, 1.0, -2.5, 1.0e6)


def _identity(info):
    try:
        return all(info.tobase(x) == x and info.frombase(x) == x for x in PROBE_X)
    except Exception:
        return False


def in_limits(v, lo, hi, lo_ex, hi_ex):
    if v is None or (isinstance(v, float) and math.isnan(v)):
        return False
    if lo is not None and (v <= lo if lo_ex else v < lo):
        return False
    if hi is not None and (v >= hi if hi_ex else v > hi):
        return False
    return True


class RegMonitor(Mon.Monitor):
    def __init__(self, cfg):
        self.cfg = cfg
        self.small = cfg["world"] in ("W-SYN", "W-SIMPLE")
        self.pre = None

    def focus(self, sim):
        g = self.cfg
        T = pool_types(g)
        units = sorted(set(u for t in g["types"] for u, _, _ in T[t]) | {NOPE_U})
        return (list(g["types"]) + [NOPE_T], list(g["cats"]) + [NOPE_C], units)

    def snap(self, sim):
        db = _db()
        if self.small:
            return Mon.registry_full(db, probes=True)
        return [Mon.registry_fast(db), Mon.registry_focus(db, *self.focus(sim))]

    def before(self, sim, op):
        if "model" not in sim.user:
            sim.user["model"] = RegModel.from_db(_db()) if self.cfg["world"] != "W-SYN" else RegModel()
        self.pre = self.snap(sim)
        self.pre_bystander = _bystander_digest()

    # -------------------------------------------------------------------------------
    def after(self, sim, op, out):
        db = _db()
        model = sim.user["model"]
        step = op["i"]
        reg = op.get("reg")
        post = self.snap(sim)
        if BYSTANDER is not None and reg is not None:
            # "nothing else changes" includes every other database instance
            sim.check(
                _bystander_digest() == self.pre_bystander,
                "C14.honoured",
                {"kind": reg["kind"], "arg": "other_database"},
                step,
                "%s (%s) on the database under test changed ANOTHER UnitDatabase instance" % (reg["kind"], out[0]),
            )
        if reg is None:
            # read-only user step: must not change the registry (C15 territory, but a registration
            # history that silently depends on queries would make every oracle below meaningless)
            if post != self.pre:
                sim.count("user_step_changed_registry")
            return
        if out[0] == "exc":
            sim.fired("F1.rejected_call")
            sim.count("rejected:" + reg["kind"])
            sim.check(
                post == self.pre,
                "C14.atomic",
                {"kind": reg["kind"], "exc": type(out[1]).__name__},
                step,
                lambda: "rejected %s changed the registry: %s" % (reg["kind"], Mon._diff_text(self.pre, post)),
            )
            return
        if out[0] != "ok":
            return
        sim.count("accepted:" + reg["kind"])
        # statement-derived acceptance rules (the model does not predict exception classes)
        if reg["kind"] in ("AddUnit", "AddUnitBase") and reg["unit"] in model.units:
            sim.check(False, "C14.unit_unique", {"case": "duplicate_symbol_accepted", "kind": reg["kind"], "same_type": model.units[reg["unit"]]["type"] == reg["type"]}, step, "unit %r registered twice" % (reg["unit"],))
        model.apply(reg)
        self.honoured(sim, db, model, reg, step)
        self.wellformed(sim, db, model, step)
        self.usable(sim, db, model, step, reg)

    # ------------------------------------------------------------------------------- oracle 2
    def honoured(self, sim, db, model, reg, step):
        k = reg["kind"]
        if k in ("AddUnit", "AddUnitBase"):
            t, u = reg["type"], reg["unit"]
            ok = u in db.GetUnits(t) and db.GetQuantityType(u) == t and db.GetUnitName(t, u) == reg["name"]
            sim.check(ok, "C14.honoured", {"kind": k, "arg": "type/name"}, step, "unit %r not reported as registered" % (u,))
            sim.check(list(db.GetUnits(t)) == model.types[t]["order"] or t in model.preexisting_types and list(db.GetUnits(t))[-1] == u or k == "AddUnitBase" and db.GetUnits(t)[0] == u, "C14.honoured", {"kind": k, "arg": "order"}, step, lambda: "units of %s: %r, model %r" % (t, db.GetUnits(t), model.types[t]["order"]))
            if reg.get("default_category"):
                sim.check(db.GetDefaultCategory(u) == reg["default_category"], "C14.honoured", {"kind": k, "arg": "default_category"}, step, "default category of %r" % (u,))
            # conversion behaves as requested
            info = db.GetInfo(t, u)
            kf = reg.get("k")
            if k == "AddUnitBase":
                sim.check(_identity(info), "C14.base_first_identity", {"case": "base_not_identity"}, step, "base unit %r does not convert by identity" % (u,))
            elif kf is not None and not reg.get("bad"):
                for x in (1.0, 7.5):
                    if isinstance(kf, str):
                        want_b = float(kf.split(":")[1]) / x
                    else:
                        want_b = x * kf[0] + kf[1] if isinstance(kf, list) else x * kf
                    got_b = info.tobase(x)
                    back = info.frombase(got_b)
                    sim.check(
                        _close(got_b, want_b) and _close(back, x),
                        "C14.honoured",
                        {"kind": k, "arg": "conversion"},
                        step,
                        lambda: "unit %r: tobase(%r)=%r expected %r, back %r" % (u, x, got_b, want_b, back),
                    )
        elif k == "AddCategory":
            c = reg["category"]
            ent = model.cats[c]
            sim.check(db.IsValidCategory(c) and db.GetCategoryQuantityType(c) == ent["type"], "C14.honoured", {"kind": k, "arg": "quantity_type"}, step, "category %r type" % (c,))
            info = db.GetCategoryInfo(c)
            if "valid_units" in ent:
                sim.check(list(db.GetValidUnits(c)) == ent["valid_units"], "C14.honoured", {"kind": k, "arg": "valid_units"}, step, lambda: "valid units %r, requested %r" % (db.GetValidUnits(c), ent["valid_units"]))
            if "default_unit" in ent:
                sim.check(db.GetDefaultUnit(c) == ent["default_unit"], "C14.honoured", {"kind": k, "arg": "default_unit"}, step, lambda: "default unit %r, requested %r" % (db.GetDefaultUnit(c), ent["default_unit"]))
            if "default_value" in ent:
                sim.check(db.GetDefaultValue(c) == ent["default_value"], "C14.honoured", {"kind": k, "arg": "default_value"}, step, lambda: "default value %r, requested %r" % (db.GetDefaultValue(c), ent["default_value"]))
            for f in ("min_value", "max_value"):
                if f in ent:
                    sim.check(getattr(info, f) == ent[f], "C14.honoured", {"kind": k, "arg": f}, step, lambda: "%s %r, requested %r" % (f, getattr(info, f), ent[f]))
            for f in ("is_min_exclusive", "is_max_exclusive"):
                sim.check(bool(getattr(info, f)) == ent[f], "C14.honoured", {"kind": k, "arg": f}, step, "%s" % f)
            if "caption" in ent:
                sim.check(info.caption == ent["caption"], "C14.honoured", {"kind": k, "arg": "caption"}, step, "caption")
        # nothing else changed
        if self.small and k != "Clear":
            pre, post = self.pre, self.snap(sim)
            touched = reg.get("unit") if k != "AddCategory" else reg["category"]
            ttype = reg.get("type")
            for sect, idx in (("types", 0), ("cats", 0), ("units", 0)):
                a = {row[idx]: row for row in pre[sect]}
                b = {row[idx]: row for row in post[sect]}
                for name in a:
                    if name == touched or (sect == "types" and name == ttype):
                        continue
                    ra, rb = a[name], b.get(name)
                    if sect == "units" and k == "AddCategory" and rb is not None:
                        # the type-named category is the documented fall-back default category of a unit
                        ra, rb = ra[:2] + ra[3:], rb[:2] + rb[3:]
                    if sect == "cats" and rb is not None and ra[1][3] is None and rb[1][3] is None:
                        # a category without own valid units reports inherited ones (from the type-named
                        # category or from the quantity type's unit list): a derived answer, not stored state
                        ra, rb = ra[:2] + ra[3:], rb[:2] + rb[3:]
                    if ra != rb:
                        sim.check(False, "C14.honoured", {"kind": k, "arg": "bystander_" + sect}, step, "accepted %s also changed %s %r: %r -> %r" % (k, sect, name, a[name], b.get(name)))
                        return
                extra = [n for n in b if n not in a and n != touched and not (sect == "types" and n == ttype)]
                if extra:
                    sim.check(False, "C14.honoured", {"kind": k, "arg": "extra_" + sect}, step, "accepted %s created %s %r" % (k, sect, extra))
                    return
        elif k == "Clear":
            sim.check(not db.GetQuantityTypes() and not list(db.IterCategories()) and not db.GetUnits(), "C14.honoured", {"kind": k, "arg": "empty"}, step, "Clear left entries")

    # ------------------------------------------------------------------------------- oracle 1
    def wellformed(self, sim, db, model, step, shipped=None):
        types = db.GetQuantityTypes() if (self.small or shipped) else [t for t in self.cfg["types"] if t in db.quantity_types]
        seen = {}
        for t in types:
            us = list(db.GetUnits(t))
            for u in us:
                if u in seen or us.count(u) > 1:
                    sim.check(False, "C14.unit_unique", {"case": "unit_in_two_types"}, step, "unit %r listed in %r and %r" % (u, seen.get(u), t))
                seen[u] = t
                sim.check(db.GetQuantityType(u) == t, "C14.maps_agree", {"case": "unit_lookup_disagrees"}, step, lambda: "unit %r listed under %r but GetQuantityType says %r" % (u, t, db.GetQuantityType(u)))
            if not us:
                continue
            info = db.GetInfo(t, us[0])
            if not _identity(info):
                if shipped:
                    sig = {"case": "shipped_first_unit_not_identity", "world": shipped, "quantity_type": t}
                elif t in model.types and not model.types[t]["bases"]:
                    sig = {"case": "no_base_registered"}
                else:
                    sig = {"case": "base_not_first_or_not_identity"}
                sim.check(False, "C14.base_first_identity", sig, step, "first-listed unit %r of %r is not an identity conversion (tobase(1.0)=%r)" % (us[0], t, _safe(lambda: info.tobase(1.0))))
            elif not shipped and t in model.types and model.types[t]["bases"] and t not in model.preexisting_types:
                sim.check(us[0] == model.types[t]["bases"][-1], "C14.base_first_identity", {"case": "latest_base_not_first"}, step, lambda: "first unit %r, latest registered base %r" % (us[0], model.types[t]["bases"][-1]))
        if self.small or shipped:
            sim.check(sorted(seen) == sorted(db.unit_to_unit_info), "C14.maps_agree", {"case": "unit_map_vs_type_lists"}, step, lambda: "units by type %r vs unit map %r" % (sorted(seen), sorted(db.unit_to_unit_info)))
        cats = list(db.IterCategories()) if (self.small or shipped) else [c for c in self.cfg["cats"] if db.IsValidCategory(c)]
        all_types = set(db.GetQuantityTypes())
        for c in cats:
            info = db.GetCategoryInfo(c)
            if not sim.check(info.quantity_type in all_types, "C14.category_wellformed", {"case": "type_missing"}, step, "category %r refers to unknown type %r" % (c, info.quantity_type)):
                continue
            us = set(db.GetUnits(info.quantity_type))
            sim.check(db.GetDefaultUnit(c) in us, "C14.category_wellformed", {"case": "default_unit_foreign"}, step, lambda: "category %r default unit %r not in %r" % (c, db.GetDefaultUnit(c), sorted(us)))
            try:
                vu = list(db.GetValidUnits(c))
            except Exception as e:
                sim.check(False, "C14.category_wellformed", {"case": "valid_units_getter_raises", "exc": type(e).__name__}, step, "GetValidUnits(%r) raises %r" % (c, e))
                continue
            sim.check(all(u in us for u in vu), "C14.category_wellformed", {"case": "valid_unit_foreign"}, step, lambda: "category %r valid units %r not all in %r" % (c, vu, sorted(us)))
            sim.check(
                in_limits(db.GetDefaultValue(c), info.min_value, info.max_value, info.is_min_exclusive, info.is_max_exclusive),
                "C14.default_in_limits",
                {"case": "default_value_outside_limits"},
                step,
                lambda: "category %r default %r limits %r..%r" % (c, db.GetDefaultValue(c), info.min_value, info.max_value),
            )

    # ------------------------------------------------------------------------------- oracle 4
    def usable(self, sim, db, model, step, reg=None, everything=False, shipped=None):
        """Order matters for what the intern table holds afterwards (the unit-only alias entry is
        only created when the unit-only request comes first), so it alternates with the step."""
        if step % 2:
            self._usable_units(sim, db, model, step, reg, everything, shipped)
            self._usable_categories(sim, db, model, step, reg, everything, shipped)
        else:
            self._usable_categories(sim, db, model, step, reg, everything, shipped)
            self._usable_units(sim, db, model, step, reg, everything, shipped)

    def _usable_categories(self, sim, db, model, step, reg=None, everything=False, shipped=None):
        from barril.units import Scalar

        if everything:
            cats = list(db.IterCategories())
        elif reg and reg["kind"] == "AddCategory":
            cats = [reg["category"]]
        elif reg and reg["kind"] in ("AddUnit", "AddUnitBase"):
            t = reg["type"]
            cats = [c for c in (db.IterCategories() if self.small else self.cfg["cats"]) if db.IsValidCategory(c) and db.GetCategoryQuantityType(c) == t]
        else:
            cats = []
        sigx = {"world": shipped} if shipped else {}
        for c in cats:
            try:
                s = Scalar(c)
                ok = bool(s.IsValid()) and s.GetCategory() == c
                why = "invalid" if not ok else ""
                if ok and not _bound_to_registered(db, s):
                    ok, why = False, "stale_category_info"
            except Exception as e:
                ok, why = False, type(e).__name__
            sim.check(ok, "C14.usable", dict(sigx, case="scalar_from_category", why=why), step, "Scalar(%r): %s" % (c, why))
            t = db.GetCategoryQuantityType(c)
            units = list(db.GetUnits(t))
            if reg and reg["kind"] in ("AddUnit", "AddUnitBase") and not everything:
                units = [reg["unit"]]
            elif not everything:
                units = units[:6]
            elif len(units) > 8:
                units = units[:4] + units[-4:]
            for u in units:
                try:
                    s = Scalar(1.0, u, c)
                    ok = s.GetUnit() == u and s.GetCategory() == c
                    why = "" if ok else "wrong_unit_or_category"
                    if ok and not _bound_to_registered(db, s):
                        ok, why = False, "stale_category_info"
                except Exception as e:
                    ok, why = False, type(e).__name__
                sim.check(ok, "C14.usable", dict(sigx, case="scalar_unit_category", why=why), step, "Scalar(1.0, %r, %r): %s" % (u, c, why))
    def _usable_units(self, sim, db, model, step, reg=None, everything=False, shipped=None):
        from barril.units import Scalar

        sigx = {"world": shipped} if shipped else {}
        units = []
        if everything:
            units = list(db.GetUnits())
        elif reg and reg["kind"] in ("AddUnit", "AddUnitBase"):
            units = [reg["unit"]]
        elif reg and reg["kind"] == "AddCategory":
            t = db.GetCategoryQuantityType(reg["category"])
            units = list(db.GetUnits(t))[:6]
        for u in units:
            dc = db.GetDefaultCategory(u)
            mu = model.units.get(u) if hasattr(model, "units") else None
            if mu is not None and mu.get("inrun"):
                want = mu["dc"] or (mu["type"] if model.cats.get(mu["type"], {}).get("type") == mu["type"] else None)
                if want and model.cats.get(want, {}).get("type") == mu["type"]:
                    sim.check(dc == want, "C14.usable", dict(sigx, case="unit_default_category", why="resolves_elsewhere"), step, "unit %r registered in %r: default category %r, expected %r" % (u, mu["type"], dc, want))
            if not dc or not db.IsValidCategory(dc):
                if shipped and shipped != "W-POSC-NC":  # without categories nothing can resolve, by construction
                    sim.check(False, "C14.usable", dict(sigx, case="unit_without_default_category"), step, "unit %r has no resolvable default category (%r)" % (u, dc))
                continue
            if db.GetCategoryQuantityType(dc) != db.GetQuantityType(u):
                if shipped:
                    sim.check(False, "C14.usable", dict(sigx, case="unit_default_category_foreign"), step, "unit %r default category %r has another type" % (u, dc))
                continue
            try:
                s = Scalar(1.0, u)
                ok = s.GetUnit() == u
                why = "" if ok else "wrong_unit"
                if ok and not _bound_to_registered(db, s):
                    ok, why = False, "stale_category_info"
            except Exception as e:
                ok, why = False, type(e).__name__
            sim.check(ok, "C14.usable", dict(sigx, case="scalar_unit", why=why), step, "Scalar(1.0, %r): %s" % (u, why))

    def finish(self, sim):
        if "model" not in sim.user:
            return
        db = _db()
        model = sim.user["model"]
        self.wellformed(sim, db, model, sim.step_no)
        if self.small:
            self.usable(sim, db, model, sim.step_no, everything=True)
        # abstract state for reach statistics
        st = (
            min(len(db.quantity_types), 5),
            min(len(db.unit_to_unit_info) // 3, 6),
            min(len(db.categories_to_quantity_types) // 2, 6),
            tuple(bool(model.types.get(t, {}).get("bases")) for t in self.cfg["types"]),
            sum(1 for c in db.IterCategories() if db.GetCategoryInfo(c).min_value is not None or db.GetCategoryInfo(c).max_value is not None) if self.small else -1,
        )
        sim.user["state"] = repr(st)


def _safe(f):
    try:
        return f()
    except Exception as e:
        return type(e).__name__


def _bound_to_registered(db, s):
    """The Scalar just built carries the category as it is registered now (limits, type, units),
    not an older registration of the same name that an intern table still remembers."""
    from .. import fp as F

    q = s.GetQuantity()
    info = q.GetCategoryInfo()
    reg = db.GetCategoryInfo(q.GetCategory())
    return F.fp(info) == F.fp(reg) and q.GetQuantityType() == reg.quantity_type


def _close(a, b):
    try:
        return abs(a - b) <= 1e-9 * max(1.0, abs(a), abs(b))
    except Exception:
        return False


# ------------------------------------------------------------------------------------ profile


class C14:
    prop = "C14"
    expected_faults = ["F1.rejected_call"]

    def draw_cfg(self, rng, tier):
        world = rng.choices(["W-SYN", "W-SIMPLE", "W-POSC-NC", "W-POSC"], weights=[70, 12, 6, 12])[0]
        nt = rng.randint(1, 3)
        names = sorted(TYPES)
        types = []
        while len(types) < nt:
            t = rng.choice(names)
            if t not in types:
                types.append(t)
        cats = []
        for c in CATS:
            if rng.random() < 0.6:
                cats.append(c)
        cats = cats or ["len", "tim"]
        for t in types:
            if t in CATS and t not in cats and rng.random() < 0.7:
                cats.append(t)
        lo, hi = (8, 40) if tier == "quick" else (15, 60)
        if world in ("W-POSC", "W-POSC-NC"):
            hi = min(hi, 25)
        pool = None
        if world in ("W-POSC", "W-POSC-NC") and rng.random() < 0.6:
            # the plugin extends quantity types that the shipped table already has
            from .. import world as W

            info = W.posc_info()
            basis = W.draw_basis(rng, info, n_types=(1, 2), n_units=(2, 3), n_cats=(1, 2), exotic=0.1)
            pool = {}
            cats = []
            for q, us, cs in basis:
                rows = [[u, "existing " + u, 1.0] for u in us[:2]]  # collisions with shipped units: rejected
                tag = q.replace(" ", "")[:6]
                rows += [["sim%sA" % tag, "sim unit A of " + q, 2.0], ["sim%sB" % tag, "sim unit B of " + q, 0.25]]
                pool[q] = rows
                cats += (cs if world == "W-POSC" else []) + ["sim cat " + tag, "sim cat2 " + tag]
            types = [b[0] for b in basis]
        cfg_extra = {"pool_types": pool} if pool else {}
        return dict(cfg_extra, **{
            "prop": "C14",
            "tier": tier,
            "world": world,
            "types": types,
            "cats": cats,
            "n_steps": rng.randint(lo, hi),
            "preamble": rng.random() < 0.4,
            "weights": {
                "base": rng.choice([0.5, 1, 2]),
                "unit": rng.choice([1, 2, 3]),
                "cat": rng.choice([2, 4, 6]),
                "clear": rng.choice([0, 0, 0.1, 0.3]),
                "user": rng.choice([0, 1, 2]),
            },
        })

    def setup_world(self, cfg):
        from barril.units.unit_database import UnitDatabase

        w = cfg["world"]
        # a bystander: another database instance filled by the same filler as the one under test
        global BYSTANDER
        if w == "W-POSC":
            BYSTANDER = UnitDatabase()
            UnitDatabase.FillUnitDatabaseWithPosc(BYSTANDER)
            return
        BYSTANDER = UnitDatabase.GetSingleton()  # the default POSC database stays alive next to the pushed one
        db = UnitDatabase()
        if w == "W-SIMPLE":
            UnitDatabase.FillSimple(db)
        elif w == "W-POSC-NC":
            UnitDatabase.FillUnitDatabaseWithPosc(db, fill_categories=False)
        UnitDatabase.PushSingleton(db)

    def make_gen(self, rng, cfg):
        return RegGen(rng, cfg)

    def make_sim(self, cfg, known):
        sim = Sim("C14", cfg, src_prefix(), known)
        sim.oracles = PropFilter("C14")
        sim.monitors = [RegMonitor(cfg)]
        sim.user["model"] = RegModel.from_db(_db()) if cfg["world"] != "W-SYN" else RegModel()
        return sim

    def cross_executions(self, full, known):
        return None

    def restart_check(self, *a):
        pass

    # ---- the "shipped database" clause: the same predicates once over the complete databases
    def directed(self, known):
        from ..proc import run_in_child

        out = []
        for world in ("W-POSC", "W-POSC-NC", "W-SIMPLE"):
            out.append(run_in_child(self._shipped, (world, known), timeout=180))
        return out

    def _shipped(self, world, known):
        cfg = {"prop": "C14", "world": world, "types": [], "cats": [], "n_steps": 0, "shipped": True}
        self.setup_world(cfg)
        sim = self.make_sim(cfg, known)
        sim.stop_on_violation = False
        mon = sim.monitors[0]
        mon.small = True
        db = _db()
        model = RegModel.from_db(db)
        mon.wellformed(sim, db, model, 0, shipped=world)
        mon.usable(sim, db, model, 0, everything=True, shipped=world)
        res = sim.result()
        res["world"] = world
        res["entities"] = [len(db.GetQuantityTypes()), len(db.GetUnits()), len(list(db.IterCategories()))]
        return res
