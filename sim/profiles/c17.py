"""
C17 — the unit-system manager is a registry with exactly one current system.

The one genuinely event-driven component: registry + current pointer + weakly-held listeners.
Seeded histories (admin, user and listener clients; rejected calls, listener death by GC, listener
exceptions) are executed on the real UnitSystemManager and on a reference model in lock-step; the
model predicts the state and, per listener, the callback log.
"""
import gc

from .. import monitors as Mon
from .. import ops as O
from ..engine import Sim
from ..oracles import PropFilter
from ..runner import src_prefix

CATS = {
    "length": ["m", "cm", "km", "ft", "in"],
    "depth": ["m", "ft", "km"],
    "time": ["s", "min", "h"],
    "temperature": ["K", "degC", "degF"],
    "pressure": ["Pa", "psi", "bar"],
}
FOREIGN = {"length": "s", "depth": "K", "time": "m", "temperature": "Pa", "pressure": "m"}
IDS = ["si", "", "system 1", "field", "system 2", "lab"]  # the empty string is a legal id
LISTENER_NAMES = ["L1", "L2", "L3", "L4"]

# simulator-owned listeners (strong references live here and nowhere else)
LISTENERS = {}


class ListenerFault(RuntimeError):
    """F2: a listener raises inside a notification."""


_NO = "<no redirect>"


class Listener:
    def __init__(self, name):
        self.name = name
        self.log = []
        self.seen = []  # what the listener observes through the manager while it is being notified
        self.raise_next = False
        self.redirect = _NO  # a re-entrant client: on its next on_current it selects this system instead

    def _maybe_raise(self):
        if self.raise_next:
            self.raise_next = False
            sim = O.PEER.get("sim")
            if sim is not None:
                sim.peer_fired = True
            raise ListenerFault("listener %s fails" % self.name)

    def on_cur(self, system):
        self.log.append(["current", system.GetId()])
        # re-entrant read-only query from inside the notification
        try:
            self.seen.append(["current", system.GetId(), _mgr().GetCurrent().GetId()])
        except Exception as e:
            self.seen.append(["current", system.GetId(), ["raised", type(e).__name__]])
        self._maybe_raise()
        if self.redirect is not _NO:
            # re-entrant MUTATION from inside the notification (once): "not this system, that one"
            sid, self.redirect = self.redirect, _NO
            m = _mgr()
            try:
                target = None if sid is None else m.GetUnitSystemById(sid)
            except Exception:
                return
            m.SetCurrent(target)

    def on_unit(self, category, unit):
        self.log.append(["unit", category, unit])
        try:
            m = _mgr()
            probe_unit = CATS[category][0] if category in CATS else None
            conv = list(m.ConvertToCurrent(category, probe_unit, 1.0)) if probe_unit else None
            self.seen.append(["unit", category, unit, m.GetCategoryDefaultUnit(category), conv[1] if conv else None, probe_unit])
        except Exception as e:
            self.seen.append(["unit", category, unit, ["raised", type(e).__name__], None, None])
        self._maybe_raise()


def _mgr():
    from barril.units.unit_system_manager import UnitSystemManager

    return UnitSystemManager.GetSingleton()


# ---- helper calls (targets of "py" ops)


def lst_new(name):
    LISTENERS[name] = Listener(name)
    return None


def lst_register(name, which):
    l = LISTENERS[name]
    m = _mgr()
    if which == "current":
        m.on_current.Register(l.on_cur)
    else:
        m.on_unit_changed.Register(l.on_unit)
    return None


def lst_unregister(name, which):
    l = LISTENERS[name]
    m = _mgr()
    if which == "current":
        m.on_current.Unregister(l.on_cur)
    else:
        m.on_unit_changed.Unregister(l.on_unit)
    return None


def lst_contains(name, which):
    l = LISTENERS[name]
    m = _mgr()
    return bool(m.on_current.Contains(l.on_cur) if which == "current" else m.on_unit_changed.Contains(l.on_unit))


def lst_die(name):
    """F3: the last strong reference goes away; CPython frees the object at once, gc for cycles."""
    l = LISTENERS.pop(name)
    # a client that goes away takes its pending intent with it (the object itself may live on for
    # a while, e.g. in the traceback of an exception it raised earlier)
    l.redirect = _NO
    del l
    gc.collect()
    return None


def lst_arm(name):
    LISTENERS[name].raise_next = True
    return None


def lst_redirect(name, sid):
    LISTENERS[name].redirect = sid
    return None


def mgr_set_current(sid, via):
    m = _mgr()
    system = None if sid is None else m.GetUnitSystemById(sid)
    if via == "property":
        m.current = system
    else:
        m.SetCurrent(system)
    return None


def sys_call(sid, method, *args):
    return getattr(_mgr().GetUnitSystemById(sid), method)(*args)


def mgr_current_id():
    return _mgr().GetCurrent().GetId()


def mgr_ids():
    return list(_mgr().GetUnitSystems().keys())


def mgr_template():
    t = _mgr().GetUnitSystemTemplate()
    return None if t is None else sorted(t.GetUnitsMapping().items())


def mgr_convert_scalar(value, unit, category):
    from barril.units import Scalar

    s = _mgr().ConvertScalarToCurrent(Scalar(value, unit, category))
    return [s.GetValue(), s.GetUnit()]


def mgr_quantity_default_unit(unit, category):
    from barril.units import ObtainQuantity

    return _mgr().GetQuantityDefaultUnit(ObtainQuantity(unit, category))


for _f in (lst_new, lst_register, lst_unregister, lst_contains, lst_die, lst_arm, lst_redirect, mgr_set_current, sys_call, mgr_current_id, mgr_ids, mgr_template, mgr_convert_scalar, mgr_quantity_default_unit):
    O._Py.FUNCS[_f.__name__] = _f


# ------------------------------------------------------------------------------------ model


class MgrModel:
    def __init__(self):
        self.systems = {}  # id -> {"caption", "mapping", "read_only"}   (insertion ordered)
        self.current = None
        self.template = None
        self.listeners = {}  # name -> {"alive", "current": bool, "unit": bool, "armed": bool}

    def state(self):
        return [
            [[sid, s["caption"], sorted(s["mapping"].items()), bool(s["read_only"])] for sid, s in self.systems.items()],
            self.current,
            None if self.template is None else sorted(self.template.items()),
        ]

    def notify(self, which, payload):
        """{listener: [event]} for live, registered listeners."""
        out = {}
        for n, l in self.listeners.items():
            if l["alive"] and l[which]:
                out[n] = [payload]
        return out


def _wiring_consistent(m):
    """Used ONLY to recognise a half-done interrupted mutator: the manager listens to the default-unit
    changes of exactly the current system."""
    try:
        cur = m._current
        for s in list(m.GetUnitSystems().values()) + ([cur] if cur is not None else []):
            if bool(s.on_default_unit.Contains(m._CategoryUnitChange)) != (s is cur):
                return False
        return True
    except Exception:
        return False


def real_state(m):
    systems = []
    for sid, s in m.GetUnitSystems().items():
        systems.append([s.GetId() if s.GetId() == sid else ["key", sid, "id", s.GetId()], s.GetCaption(), sorted(s.GetUnitsMapping().items()), bool(s.IsReadOnly())])
    t = m.GetUnitSystemTemplate()
    return [systems, m.GetCurrent().GetId(), None if t is None else sorted(t.GetUnitsMapping().items())]


# ------------------------------------------------------------------------------------ generator


class MgrGen:
    def __init__(self, rng, cfg):
        self.rng = rng
        self.cfg = cfg
        self.i = 0
        self.n = 0
        self.cats = cfg["cats"]
        self.ids = cfg["ids"]
        self.dicts = []  # steps holding caller-owned mapping dicts (shared mapping objects)

    def mapping(self, cats=None, partial=False):
        rng = self.rng
        cats = list(cats if cats is not None else self.cats)
        if partial and cats:
            cats = [c for c in cats if rng.random() < 0.6]
        return {c: rng.choice(CATS[c]) for c in cats}

    def op(self, k, t, m, a=(), kw=None, mg=None, c="admin", f=None):
        d = {"k": k, "t": t, "m": m, "a": list(a), "c": c}
        if kw:
            d["kw"] = kw
        if mg is not None:
            d["mg"] = mg
        if f:
            d["f"] = f
        return d

    def __call__(self, sim):
        if self.n >= self.cfg["n_steps"] or sim.user.get("halted"):
            return None
        self.n += 1
        rng = self.rng
        model = sim.user["model"]
        w = self.cfg["weights"]
        kind = rng.choices(["admin", "user", "sysop", "query", "listener", "fault"], weights=[w["admin"], w["user"], w["sysop"], w["query"], w["listener"], w["fault"]])[0]
        op = None
        for _ in range(20):
            op = getattr(self, "g_" + kind)(sim, model)
            if op is not None:
                break
            kind = rng.choice(["admin", "query", "listener"])
        if (
            not op.get("f")
            and (op.get("mg") or {}).get("kind") in ("add", "remove", "select", "template", "setunit", "rmcat")
            and self.cfg.get("intr_mut_rate", 0) > 0
            and rng.random() < self.cfg["intr_mut_rate"]
        ):
            # F7 inside a mutator (see MgrMonitor.after)
            op["intr"] = rng.randint(1, 40)
            op["f"] = "F7.interrupt"
        if kind == "query" and not op.get("f") and self.cfg.get("intr_rate", 0) > 0 and rng.random() < self.cfg["intr_rate"]:
            # F7: KeyboardInterrupt at the k-th executed barril line inside a read-only manager call
            op["intr"] = int(min(200, max(1, rng.expovariate(1.0 / 12))))
            op["f"] = "F7.interrupt"
        op["i"] = self.i
        self.i += 1
        return op

    # ---- admin
    def g_admin(self, sim, model):
        rng = self.rng
        r = rng.random()
        if r < 0.12:
            m = self.mapping(partial=rng.random() < 0.7)
            return self.op("mgr.SetTemplate", "mgr", "SetTemplateUnitSystemByUnitsMapping", [{"D": [[k, v] for k, v in m.items()]}], mg={"kind": "template", "mapping": m})
        if r < 0.2:
            # a caller-owned dict that may be handed to several systems (and to the template)
            m = self.mapping(partial=rng.random() < 0.3)
            self.dicts.append((self.i, m))
            return self.op("caller.mapping", "py", "identity", [{"D": [[k, v] for k, v in m.items()]}], mg={"kind": "noop"}, c="admin")
        if r < 0.7:
            free = [x for x in self.ids if x not in model.systems]
            sid = rng.choice(free) if (free and rng.random() < 0.85) else rng.choice(self.ids)
            ro = rng.random() < 0.2
            rr = rng.random()
            if rr < 0.2:
                marg, mval, shared = None, None, None
            elif rr < 0.45 and self.dicts:
                step, m0 = rng.choice(self.dicts)
                marg, mval, shared = {"ref": step}, dict(m0), step
            else:
                mval = self.mapping(partial=rng.random() < 0.35)
                marg, shared = {"D": [[k, v] for k, v in mval.items()]}, None
            a = [sid, "caption " + sid, marg]
            kw = {"read_only": True} if ro else None
            return self.op("mgr.AddUnitSystem", "mgr", "AddUnitSystem", a, kw=kw, mg={"kind": "add", "id": sid, "caption": "caption " + sid, "mapping": mval, "read_only": ro, "shared": shared})
        if r < 0.9:
            known = list(model.systems)
            sid = rng.choice(known) if (known and rng.random() < 0.8) else rng.choice(self.ids + ["ghost"])
            return self.op("mgr.RemoveUnitSystem", "mgr", "RemoveUnitSystem", [sid], mg={"kind": "remove", "id": sid})
        if self.dicts and rng.random() < 0.5:
            step, m0 = rng.choice(self.dicts)
            return self.op("mgr.SetTemplate", "mgr", "SetTemplateUnitSystemByUnitsMapping", [{"ref": step}], mg={"kind": "template", "mapping": dict(m0), "shared": step})
        return self.op("mgr.GetNewId", "mgr", "GetNewId", [], mg={"kind": "newid"}, c="admin")

    # ---- user: select
    def g_user(self, sim, model):
        rng = self.rng
        known = list(model.systems)
        if not known and rng.random() < 0.7:
            return None
        sid = None if (not known or rng.random() < 0.15) else rng.choice(known)
        via = rng.choice(["SetCurrent", "SetCurrent", "property"])
        return self.op("mgr.SetCurrent", "py", "mgr_set_current", [sid, via], mg={"kind": "select", "id": sid}, c="user")

    # ---- user: operations on systems reached through the manager
    def g_sysop(self, sim, model):
        rng = self.rng
        known = list(model.systems)
        if not known:
            return None
        sid = rng.choice(known) if rng.random() < 0.6 or model.current is None else model.current
        r = rng.random()
        c = rng.choice(self.cats)
        if r < 0.6:
            u = rng.choice(CATS[c])
            return self.op("sys.SetDefaultUnit", "py", "sys_call", [sid, "SetDefaultUnit", c, u], mg={"kind": "setunit", "id": sid, "category": c, "unit": u}, c="user")
        if r < 0.8:
            return self.op("sys.RemoveCategory", "py", "sys_call", [sid, "RemoveCategory", c], mg={"kind": "rmcat", "id": sid, "category": c}, c="user")
        if r < 0.9:
            cap = "renamed " + sid
            return self.op("sys.SetCaption", "py", "sys_call", [sid, "SetCaption", cap], mg={"kind": "caption", "id": sid, "caption": cap}, c="user")
        ro = rng.random() < 0.5
        return self.op("sys.SetReadOnly", "py", "sys_call", [sid, "SetReadOnly", ro], mg={"kind": "readonly", "id": sid, "read_only": ro}, c="user")

    # ---- queries
    def g_query(self, sim, model):
        rng = self.rng
        c = rng.choice(self.cats)
        u = rng.choice(CATS[c])
        v = rng.choice([0.0, 1.0, 2.5, -40.0, 100.0, 1e3])
        r = rng.random()
        if r < 0.3:
            return self.op("mgr.ConvertToCurrent", "mgr", "ConvertToCurrent", [c, u, v], mg={"kind": "convert", "category": c, "unit": u, "value": v}, c="user")
        if r < 0.45:
            return self.op("mgr.ConvertScalarToCurrent", "py", "mgr_convert_scalar", [v, u, c], mg={"kind": "convert_scalar", "category": c, "unit": u, "value": v}, c="user")
        if r < 0.6:
            return self.op("mgr.GetCategoryDefaultUnit", "mgr", "GetCategoryDefaultUnit", [c], mg={"kind": "defunit", "category": c}, c="user")
        if r < 0.7:
            return self.op("mgr.GetQuantityDefaultUnit", "py", "mgr_quantity_default_unit", [u, c], mg={"kind": "qdefunit", "category": c, "unit": u}, c="user")
        if r < 0.8:
            return self.op("mgr.GetCurrent", "py", "mgr_current_id", [], mg={"kind": "current"}, c="user")
        if r < 0.9:
            return self.op("mgr.GetUnitSystems", "py", "mgr_ids", [], mg={"kind": "ids"}, c="user")
        if r < 0.95:
            return self.op("mgr.GetNewId", "mgr", "GetNewId", [], mg={"kind": "newid"}, c="admin")
        return self.op("mgr.GetUnitSystemTemplate", "py", "mgr_template", [], mg={"kind": "gettemplate"}, c="user")

    # ---- listeners
    def g_listener(self, sim, model):
        rng = self.rng
        L = model.listeners
        alive = [n for n in L if L[n]["alive"]]
        unborn = [n for n in self.cfg["listeners"] if n not in L or not L[n]["alive"]]
        r = rng.random()
        if (not alive or r < 0.2) and unborn:
            n = rng.choice(unborn)
            return self.op("lst.new", "py", "lst_new", [n], mg={"kind": "lnew", "name": n}, c="listener")
        if not alive:
            return None
        n = rng.choice(alive)
        which = rng.choice(["current", "unit"])
        if 0.55 <= r < 0.65 and self.cfg.get("reentrant") and not any(l.get("armed") or l.get("redirect") is not None for l in L.values() if l["alive"]):
            cur_l = [x for x in alive if L[x]["current"]]
            if cur_l and model.systems:
                n = rng.choice(cur_l)
                to = rng.choice(list(model.systems) + [None])
                return self.op("lst.redirect", "py", "lst_redirect", [n, to], mg={"kind": "lredirect", "name": n, "to": to}, c="listener")
        if r < 0.65:
            return self.op("lst.register." + which, "py", "lst_register", [n, which], mg={"kind": "lreg", "name": n, "which": which}, c="listener")
        if r < 0.8:
            return self.op("lst.unregister." + which, "py", "lst_unregister", [n, which], mg={"kind": "lunreg", "name": n, "which": which}, c="listener")
        if r < 0.9:
            return self.op("lst.contains." + which, "py", "lst_contains", [n, which], mg={"kind": "lcontains", "name": n, "which": which}, c="listener")
        return self.op("flt.listener_die", "py", "lst_die", [n], mg={"kind": "ldie", "name": n}, c="listener", f="F3.listener_death")

    # ---- faults: calls that must be rejected, raising listeners
    def g_fault(self, sim, model):
        rng = self.rng
        r = rng.random()
        known = list(model.systems)
        if r < 0.2 and known:
            sid = rng.choice(known)
            m = self.mapping()
            return self.op("flt.bad_arg.mgr.AddUnitSystem.duplicate_id", "mgr", "AddUnitSystem", [sid, "dup", {"D": [[k, v] for k, v in m.items()]}], mg={"kind": "add", "id": sid, "caption": "dup", "mapping": m, "read_only": False, "shared": None}, f="F1.bad_arg")
        if r < 0.4 and model.template:
            free = [x for x in self.ids if x not in model.systems] or ["extra"]
            missing = rng.choice(sorted(model.template))
            m = {c: rng.choice(CATS[c]) for c in model.template if c != missing}
            sid = rng.choice(free)
            return self.op("flt.bad_arg.mgr.AddUnitSystem.not_covering", "mgr", "AddUnitSystem", [sid, "caption " + sid, {"D": [[k, v] for k, v in m.items()]}], mg={"kind": "add", "id": sid, "caption": "caption " + sid, "mapping": m, "read_only": False, "shared": None}, f="F1.bad_arg")
        if r < 0.55 and known:
            # a template some registered system does not cover
            lacking = None
            for sid, s in model.systems.items():
                miss = [c for c in self.cats if c not in s["mapping"]]
                if miss:
                    lacking = miss
                    break
            if lacking:
                m = self.mapping(cats=sorted(set(lacking[:1]) | set(rng.sample(self.cats, 1))))
                return self.op("flt.bad_arg.mgr.SetTemplate.not_covered", "mgr", "SetTemplateUnitSystemByUnitsMapping", [{"D": [[k, v] for k, v in m.items()]}], mg={"kind": "template", "mapping": m}, f="F1.bad_arg")
        if r < 0.7:
            return self.op("flt.bad_arg.mgr.RemoveUnitSystem.unknown_id", "mgr", "RemoveUnitSystem", ["ghost"], mg={"kind": "remove", "id": "ghost"}, f="F1.bad_arg")
        if r < 0.85:
            c = rng.choice(self.cats)
            return self.op("flt.incompatible.mgr.ConvertToCurrent", "mgr", "ConvertToCurrent", [c, FOREIGN[c], 1.0], mg={"kind": "convert", "category": c, "unit": FOREIGN[c], "value": 1.0, "foreign": True}, c="user", f="F1.incompatible")
        L = model.listeners
        cands = [n for n in L if L[n]["alive"] and (L[n]["current"] or L[n]["unit"])]
        if not cands or any(l.get("redirect") is not None for l in L.values() if l["alive"]):
            return None
        n = rng.choice(cands)
        return self.op("flt.listener_raise", "py", "lst_arm", [n], mg={"kind": "larm", "name": n}, c="listener", f="F2.listener_raise")


# ------------------------------------------------------------------------------------ monitor


class MgrMonitor(Mon.Monitor):
    def __init__(self, cfg):
        self.cfg = cfg

    def before(self, sim, op):
        if sim.user.get("halted"):
            return
        m = _mgr()
        self.pre_real = real_state(m)
        self.pre_model = sim.user["model"].state()
        self.pre_logs = {n: len(l.log) for n, l in LISTENERS.items()}
        self.pre_seen = {n: len(l.seen) for n, l in LISTENERS.items()}

    def after(self, sim, op, out):
        from barril.units.unit_database import UnitDatabase

        mg = op.get("mg")
        if mg is None or sim.user.get("halted"):
            return
        model = sim.user["model"]
        m = _mgr()
        step = op["i"]
        kind = mg["kind"]
        raised = out[0] == "exc"
        peer = sim.peer_fired  # a listener raised inside this step
        expect = {}  # listener -> [events] (exact); "maybe" -> listener -> [events] allowed 0 or 1 times
        maybe = {}
        must_reject = False
        result_check = None

        # F7 inside a manager MUTATOR: nothing is demanded of the call itself.  Afterwards the
        # manager is as before, as after the completed call, or half-done; in the first two cases
        # the run goes on against the model in that state, in the third it ends here.
        intr_mut = out[0] == "intr" and kind in ("add", "remove", "select", "template", "setunit", "rmcat", "caption", "readonly")
        pre_model = None
        if intr_mut:
            import copy

            pre_model = copy.deepcopy(model)

        # ---- transition rules = the statement's sentences
        if kind == "add":
            sid = mg["id"]
            mapping = mg["mapping"]
            if sid in model.systems:
                must_reject = True
            elif model.template is not None and mapping is not None and not set(mapping).issuperset(model.template):
                must_reject = True
            else:
                if mapping is None:
                    mapping = dict(model.template) if model.template is not None else {}
                model.systems[sid] = {"caption": mg["caption"], "mapping": dict(mapping), "read_only": mg["read_only"]}
                if model.current is None:
                    model.current = sid
                    expect = model.notify("current", ["current", sid])
        elif kind == "remove":
            sid = mg["id"]
            if sid not in model.systems:
                must_reject = True
            else:
                del model.systems[sid]
                if model.current == sid:
                    # "removing the current one selects another or none": any registered one is accepted
                    real_cur = m.GetCurrent().GetId()
                    if model.systems:
                        new = real_cur if real_cur in model.systems else next(iter(model.systems))
                        sim.check(intr_mut or real_cur in model.systems or any(l["alive"] and l.get("redirect") is not None for l in model.listeners.values()), "C17.remove_reselects", {"case": "current_not_registered_after_remove"}, step, "after removing the current system, current is %r (registered: %r)" % (real_cur, list(model.systems)))
                    else:
                        new = None
                    model.current = new
                    expect = model.notify("current", ["current", new])
        elif kind == "select":
            sid = mg["id"]
            if sid is not None and sid not in model.systems:
                must_reject = True
            else:
                same = model.current == sid
                model.current = sid
                if same:
                    maybe = model.notify("current", ["current", sid])
                else:
                    expect = model.notify("current", ["current", sid])
        elif kind == "template":
            mapping = mg["mapping"]
            if any(not set(s["mapping"]).issuperset(mapping) for s in model.systems.values()):
                must_reject = True
            else:
                model.template = dict(mapping)
        elif kind == "setunit":
            s = model.systems[mg["id"]]
            same = s["mapping"].get(mg["category"]) == mg["unit"]
            s["mapping"][mg["category"]] = mg["unit"]
            if model.current == mg["id"]:
                ev = ["unit", mg["category"], mg["unit"]]
                if same:
                    maybe = model.notify("unit", ev)
                else:
                    expect = model.notify("unit", ev)
        elif kind == "rmcat":
            s = model.systems[mg["id"]]
            if mg["category"] in s["mapping"]:
                del s["mapping"][mg["category"]]
                if model.current == mg["id"]:
                    expect = model.notify("unit", ["unit", mg["category"], None])
        elif kind == "caption":
            model.systems[mg["id"]]["caption"] = mg["caption"]
        elif kind == "readonly":
            model.systems[mg["id"]]["read_only"] = mg["read_only"]
        elif kind in ("convert", "convert_scalar"):
            cur = model.systems.get(model.current) if model.current is not None else None
            d = cur["mapping"].get(mg["category"]) if cur else None
            if d is None:
                want = [mg["value"], mg["unit"]]
            elif mg.get("foreign"):
                must_reject = True
                want = None
            else:
                want = [UnitDatabase.GetSingleton().Convert(mg["category"], mg["unit"], d, mg["value"]), d]
            result_check = ("C17.convert", want)
        elif kind == "defunit":
            cur = model.systems.get(model.current) if model.current is not None else None
            result_check = ("C17.convert", cur["mapping"].get(mg["category"]) if cur else None)
        elif kind == "qdefunit":
            cur = model.systems.get(model.current) if model.current is not None else None
            d = cur["mapping"].get(mg["category"]) if cur else None
            result_check = ("C17.convert", d if d is not None else mg["unit"])
        elif kind == "current":
            result_check = ("C17.current_registered", model.current)
        elif kind == "ids":
            result_check = ("C17.ids", list(model.systems))
        elif kind == "gettemplate":
            result_check = ("C17.acceptance", None if model.template is None else sorted(model.template.items()))
        elif kind == "newid":
            if out[0] == "ok":
                sim.check(out[1] not in model.systems and isinstance(out[1], str), "C17.new_id", {"case": "id_in_use"}, step, "GetNewId returned %r, ids %r" % (out[1], list(model.systems)))
        elif kind == "lnew":
            model.listeners[mg["name"]] = {"alive": True, "current": False, "unit": False, "armed": False}
            sim.count("probe:listener_allocated_after_death", 1 if sim.user.get("deaths") else 0)
        elif kind == "lreg":
            model.listeners[mg["name"]][mg["which"]] = True
        elif kind == "lunreg":
            model.listeners[mg["name"]][mg["which"]] = False
        elif kind == "lcontains":
            result_check = ("C17.notify_exact", bool(model.listeners[mg["name"]][mg["which"]]))
        elif kind == "ldie":
            model.listeners[mg["name"]]["alive"] = False
            sim.user["deaths"] = sim.user.get("deaths", 0) + 1
            sim.fired("F3.listener_death")
        elif kind == "larm":
            model.listeners[mg["name"]]["armed"] = True
        elif kind == "lredirect":
            model.listeners[mg["name"]]["redirect"] = [mg["to"]]

        if intr_mut:
            now = real_state(m)
            if not _wiring_consistent(m):
                # half-done in a way the public getters do not show (the manager is not, or not
                # only, subscribed to the current system): nothing is demanded, the run ends here
                now = None
            if now == model.state():
                sim.count("probe:interrupted_mutator_applied")
            elif now == pre_model.state():
                model.systems, model.current, model.template = pre_model.systems, pre_model.current, pre_model.template
                sim.count("probe:interrupted_mutator_not_applied")
            else:
                sim.count("probe:interrupted_mutator_half_done")
                sim.user["halted"] = True
            for n, l in model.listeners.items():
                if l["alive"] and n in LISTENERS:
                    l["armed"] = LISTENERS[n].raise_next
                    if l.get("redirect") is not None and LISTENERS[n].redirect is _NO:
                        l["redirect"] = None  # consumed inside the interrupted call, whatever came of it
            return
        fault = op.get("f")
        sig0 = {"op": _short(op["k"])}
        # ---- a re-entrant client selected another system from inside its on_current notification:
        # afterwards that system is the current one (what the individual listeners were told in
        # which order during the nested calls is not demanded)
        reentered = False
        for n, l in model.listeners.items():
            if l["alive"] and l.get("redirect") is not None and n in LISTENERS and LISTENERS[n].redirect is _NO:
                to = l["redirect"][0]
                l["redirect"] = None
                if not must_reject and (to is None or to in model.systems):
                    model.current = to
                    reentered = True
                    sim.count("probe:reentrant_select")
        if reentered:
            for n in LISTENERS:
                self.pre_seen[n] = len(LISTENERS[n].seen)
                self.pre_logs[n] = len(LISTENERS[n].log)
            expect, maybe = {}, {}
        # ---- what a listener sees through the manager while it is being notified is the new state
        for n, l in LISTENERS.items():
            for ev in l.seen[self.pre_seen.get(n, 0) :]:
                if ev[0] == "current":
                    sim.check(ev[2] == ev[1], "C17.current_registered", dict(sig0, case="stale_during_notification"), step, lambda: "listener %s notified of current %r but GetCurrent() answered %r inside the notification" % (n, ev[1], ev[2]))
                else:
                    cat, unit, seen_default, seen_conv, probe = ev[1:]
                    sim.check(seen_default == unit, "C17.convert", dict(sig0, case="stale_during_notification", api="GetCategoryDefaultUnit"), step, lambda: "listener %s notified of (%r, %r) but GetCategoryDefaultUnit answered %r inside the notification" % (n, cat, unit, seen_default))
                    if probe is not None and not isinstance(seen_default, list):
                        sim.check(seen_conv == (unit if unit is not None else probe), "C17.convert", dict(sig0, case="stale_during_notification", api="ConvertToCurrent"), step, lambda: "listener %s notified of (%r, %r) but ConvertToCurrent answered in %r inside the notification" % (n, cat, unit, seen_conv))
        # ---- acceptance <=> the model's rule
        if must_reject:
            if not (op.get("f") or "").startswith("F1."):
                sim.fired("F1.rejected_call")
            if not sim.check(raised, "C17.acceptance", dict(sig0, case="invalid_call_accepted"), step, "%s must be rejected, got %s %r" % (op["k"], out[0], out[1])):
                return
            # a rejected call changes nothing
            now = real_state(m)
            sim.check(now == self.pre_real, "C17.reject_atomic", dict(sig0, case="state_changed", exc=type(out[1]).__name__), step, lambda: "rejected %s changed the manager: %s" % (op["k"], Mon._diff_text(self.pre_real, now)))
            for n, l in LISTENERS.items():
                new = l.log[self.pre_logs.get(n, 0) :]
                sim.check(not new, "C17.reject_atomic", dict(sig0, case="notified"), step, "rejected %s notified %s: %r" % (op["k"], n, new))
            self._resync(sim, model, m)
            return
        if raised and not peer:
            sim.check(False, "C17.acceptance", dict(sig0, case="valid_call_rejected", exc=type(out[1]).__name__), step, "%s is valid per the model but raised %r" % (op["k"], out[1]))
            self._resync(sim, model, m)
            return
        # ---- notifications
        for n, l in LISTENERS.items():
            new = l.log[self.pre_logs.get(n, 0) :]
            want = expect.get(n, [])
            opt = maybe.get(n, [])
            if peer:
                # a listener raised: later listeners may have been skipped; nothing spurious may appear
                ok = all(ev in want or ev in opt for ev in new) and len(new) <= max(len(want), len(opt))
            else:
                ok = new == want or (opt and new in ([], opt))
            sim.check(
                ok,
                "C17.notify_exact",
                dict(sig0, case=_ncase(new, want, opt), on_current_system=(model.current == mg.get("id")) if "id" in mg else None),
                step,
                lambda: "listener %s after %s: got %r, expected %r%s" % (n, op["k"], new, want, " (or optionally %r)" % opt if opt else ""),
            )
        if peer:
            sim.check(raised and type(out[1]).__name__ == "ListenerFault", "C17.notify_exact", dict(sig0, case="listener_exception_swallowed"), step, "a listener raised but the call returned %s %r" % (out[0], out[1]))
            for n, l in model.listeners.items():
                if l["alive"] and n in LISTENERS:
                    l["armed"] = LISTENERS[n].raise_next
        # ---- refinement: real state == model state
        now = real_state(m)
        want_state = model.state()
        if peer:
            if now != want_state and now == self.pre_model:
                self._resync(sim, model, m)
                want_state = model.state()
        self._invariants(sim, m, model, step, sig0)
        if not sim.check(now == want_state, "C17.state", dict(sig0, case=_state_case(now, want_state), shared=bool(sim.user.get("shared_groups"))), step, lambda: "after %s: real %s" % (op["k"], Mon._diff_text(want_state, now))):
            self._resync(sim, model, m)
        if result_check is not None and out[0] == "ok":
            oid, want = result_check
            got = out[1]
            if isinstance(got, tuple):
                got = list(got)
            ok = got == want
            if not ok and isinstance(want, list) and isinstance(got, list) and len(want) == len(got) == 2 and isinstance(want[0], float):
                ok = got[1] == want[1] and abs(got[0] - want[0]) <= 1e-12 * max(1.0, abs(want[0]))
            sim.check(ok, oid, dict(sig0, case="wrong_answer"), step, lambda: "%s returned %r, model says %r" % (op["k"], got, want))

    def _invariants(self, sim, m, model, step, sig0):
        systems = m.GetUnitSystems()
        ids = [s.GetId() for s in systems.values()]
        sim.check(len(set(ids)) == len(ids) and ids == list(systems.keys()), "C17.ids", dict(sig0, case="ids_not_unique_or_key_mismatch"), step, "ids %r keys %r" % (ids, list(systems.keys())))
        cur = m.GetCurrent()
        sim.check(cur.GetId() is None or (cur.GetId() in systems and systems[cur.GetId()] is cur), "C17.current_registered", dict(sig0, case="current_not_registered"), step, "current %r not among %r" % (cur.GetId(), ids))
        sim.check(m.GetNewId() not in systems, "C17.new_id", dict(sig0, case="id_in_use"), step, "GetNewId in use")

    def _resync(self, sim, model, m):
        """After a reported (or known) divergence: continue from the real state."""
        systems, cur, tmpl = real_state(m)
        model.systems = {}
        for sid, cap, mapping, ro in systems:
            if isinstance(sid, str):
                model.systems[sid] = {"caption": cap, "mapping": dict(mapping), "read_only": ro}
        model.current = cur
        model.template = None if tmpl is None else dict(tmpl)

    def finish(self, sim):
        model = sim.user["model"]
        cur = list(model.systems).index(model.current) if model.current in model.systems else -1
        sim.user["state"] = repr((len(model.systems), cur, model.template is not None, sum(1 for l in model.listeners.values() if l["alive"]), bool(sim.user.get("deaths"))))


def _short(k):
    return k[:48]


def _ncase(new, want, opt):
    if len(new) > len(want) and not opt:
        return "spurious_notification"
    if len(new) < len(want):
        return "missing_notification"
    return "wrong_notification"


def _state_case(now, want):
    if now[1] != want[1]:
        return "current"
    if now[2] != want[2]:
        return "template"
    a = {s[0] if isinstance(s[0], str) else repr(s[0]): s for s in now[0]}
    b = {s[0]: s for s in want[0]}
    if list(a) != list(b):
        return "registered_ids"
    for k in a:
        if a[k][2] != b[k][2]:
            return "mapping"
        if a[k] != b[k]:
            return "system_fields"
    return "other"


# ------------------------------------------------------------------------------------ profile


class C17:
    prop = "C17"
    expected_faults = ["F1.rejected_call", "F2.peer_exception", "F3.listener_death", "F7.interrupt"]

    def draw_cfg(self, rng, tier):
        ncat = rng.randint(1, 3)
        cats = rng.sample(sorted(CATS), ncat)
        lo, hi = (10, 45) if tier == "quick" else (20, 150)
        return {
            "prop": "C17",
            "tier": tier,
            "world": "W-POSC",
            "cats": cats,
            "ids": IDS[: rng.randint(2, 6)],
            "listeners": LISTENER_NAMES[: rng.randint(1, 4)],
            "reentrant": rng.random() < 0.5,
            "n_steps": rng.randint(lo, hi),
            "intr_rate": rng.choice([0, 0, 0.1, 0.25]),
            "intr_mut_rate": rng.choice([0, 0, 0.05, 0.15]),
            "weights": {
                "admin": rng.choice([2, 3, 4]),
                "user": rng.choice([1, 2, 3]),
                "sysop": rng.choice([1, 2, 4]),
                "query": rng.choice([1, 2]),
                "listener": rng.choice([1, 2, 3]),
                "fault": rng.choice([0.5, 1, 2]),
            },
        }

    def setup_world(self, cfg):
        from barril.units.unit_system_manager import UnitSystemManager

        LISTENERS.clear()
        UnitSystemManager.PushSingleton(UnitSystemManager())

    def make_gen(self, rng, cfg):
        return MgrGen(rng, cfg)

    def make_sim(self, cfg, known):
        sim = Sim("C17", cfg, src_prefix(), known)
        sim.oracles = PropFilter("C17")
        sim.monitors = [MgrMonitor(cfg)]
        sim.user["model"] = MgrModel()
        return sim

    def cross_executions(self, full, known):
        return None

    def restart_check(self, *a):
        pass
