"""
Profiles that share the "value world" (C05, C07, C11, C13): one shared database, several
clients operating on pools of value objects, faults F1 / F7 / F5 at seeded points.
"""
from .. import monitors as Mon
from .. import world as W
from ..engine import Sim
from ..genvalue import ValueGen
from ..oracles import PropFilter
from ..runner import nf_diff, src_prefix

ALL_CLIENTS = ["calculator", "inspector", "validator", "persister", "curator", "saboteur"]


class ValueProfile:
    prop = None
    steps = {"quick": (12, 40), "thorough": (20, 150)}
    client_bias = {}
    family_bias = {}
    flt_kinds = None
    use_restart = True
    use_interrupt = True
    use_nf = False
    intr_reg = False  # F7 may land inside an (otherwise accepted) registration
    use_reg = False  # a registrar client issues (mostly rejected) registrations inside the history
    reg_forms = None
    worlds = [("W-POSC", 0.85), ("W-SIMPLE", 0.15)]
    limited_prob = 0.35

    # ---------------------------------------------------------------- swarm configuration
    def draw_cfg(self, rng, tier):
        world = rng.choices([w for w, _ in self.worlds], weights=[p for _, p in self.worlds])[0]
        info = W.posc_info() if world == "W-POSC" else W.simple_info()
        basis = W.draw_basis(rng, info) if world == "W-POSC" else [
            (q, list(info[q]["units"]), list(info[q]["cats"])) for q in sorted(info)
        ]
        lo, hi = self.steps[tier]
        n_steps = rng.randint(lo, hi)
        clients = []
        weights = []
        for c in ALL_CLIENTS + (["registrar"] if self.use_reg else []):
            w = self.client_bias.get(c, 1.0) * rng.choice([0, 0.5, 1, 1, 2])
            if c == "calculator":
                w = max(w, 1.0)
            if w > 0:
                clients.append(c)
                weights.append(w)
        fam = {}
        for f in ("mk", "ar", "cmp", "cv", "val", "fmt", "lk", "cp", "curve", "fixed", "flt", "reg"):
            fam[f] = self.family_bias.get(f, 1.0) * rng.choice([0.3, 1, 1, 1])
        fam["gc"] = rng.choice([0, 0.25, 0.5, 1])
        intr_rate = rng.choice([0, 0, 0.05, 0.1, 0.2]) if self.use_interrupt else 0
        restart_at = []
        if self.use_restart and rng.random() < 0.3 and n_steps >= 10:
            k = rng.choice([1, 1, 2])
            restart_at = sorted(set(rng.randint(4, n_steps - 2) for _ in range(k)))
        limited = []
        if world == "W-POSC" and rng.random() < self.limited_prob:
            for q, us, cs in basis[:2]:
                lo_v, hi_v = rng.choice([(0.0, None), (None, 1000.0), (0.0, 1000.0), (-10.0, 10.0)])
                limited.append(
                    {
                        "category": "sim limited " + q,
                        "quantity_type": q,
                        "min_value": lo_v,
                        "max_value": hi_v,
                        "default_unit": rng.choice(us),
                        "is_min_exclusive": rng.random() < 0.3,
                        "is_max_exclusive": rng.random() < 0.3,
                    }
                )
        db2 = None
        if self.prop == "C05" and world == "W-POSC" and len(basis) >= 2 and rng.random() < 0.35:
            (t1, us1, _c1), (t2, us2, _c2) = basis[0], basis[1]
            if len(us2) >= 2:
                x = us2[-1]  # in the second database this symbol is a unit of t1, not of t2
                db2 = {"types": [[t1, list(us1) + [x]], [t2, [w for w in us2 if w != x]]], "moved": x, "from": t2, "to": t1}
        dyn_units = []
        if self.use_reg and world == "W-POSC" and rng.random() < 0.6:
            for n in range(rng.choice([1, 1, 2])):
                q, us, cs = rng.choice(basis)
                dyn_units.append({"sym": "simU%d" % n, "name": "sim unit %d" % n, "qt": q, "k": rng.choice([2.0, 10.0, 0.25, 1000.0]), "callable": rng.choice([False, False, True, True, True, "recip"])})
        return {
            "prop": self.prop,
            "tier": tier,
            "dyn_units": dyn_units,
            "db2": db2,
            "reg_forms": self.reg_forms,
            "world": world,
            "basis": [list(b) for b in basis],
            "n_steps": n_steps,
            "clients": clients,
            "client_weights": weights,
            "family_weights": fam,
            "intr_rate": intr_rate,
            "intr_mean": rng.choice([8, 25, 60, 120]),
            "peer_rate": rng.choice([0, 0.1, 0.25]) if dyn_units else 0,
            "intr_reg_rate": rng.choice([0, 0.15, 0.4]) if (self.use_reg and self.intr_reg) else 0,
            "sweep_rate": rng.choice([0, 0.3, 0.6]) if (self.use_reg and self.intr_reg) else 0,
            "ro_sweep_step": (rng.randint(3, n_steps) if rng.random() < (0.05 if tier == "quick" else 0.3) else None) if self.use_interrupt else None,
            "restart_at": restart_at,
            "flt_kinds": self.flt_kinds,
            "eager_full": rng.random() < 0.6,
            "limited": limited,
            "empty_name_category": self.use_reg and self.prop == "C05" and rng.random() < 0.12,
            "burst": (rng.choice([600, 1200]) if (self.prop == "C07" and world == "W-POSC" and rng.random() < 0.12) else 0),
            "val_sweep": bool(limited) and self.use_interrupt and rng.random() < 0.25,
            "limited_cats": [[l["category"], l["quantity_type"]] for l in limited],
        }

    # ---------------------------------------------------------------- world set-up (in the child)
    def setup_world(self, cfg):
        from barril.units.unit_database import UnitDatabase

        if cfg["world"] == "W-SIMPLE":
            if self.prop == "C07":
                # an application that used the default database before it installed its own: the
                # class-level empty quantity and the module-level unknown quantity already exist
                from barril.units import Quantity

                Quantity.CreateEmpty()
            db = UnitDatabase()
            UnitDatabase.FillSimple(db)
            UnitDatabase.PushSingleton(db)
        spec = cfg.get("db2")
        if spec:
            # a project database of its own, in which one symbol of the shipped table means
            # something else (it belongs to another quantity type)
            from ..ops import OTHER_DB

            other = UnitDatabase()
            for t, units in spec["types"]:
                other.AddUnitBase(t, "base " + units[0], units[0])
                for n, un in enumerate(units[1:]):
                    other.AddUnit(t, "unit " + un, un, "%%f / %r" % float(n + 2), "%%f * %r" % float(n + 2))
                other.AddCategory(t, t)
            OTHER_DB["db"] = other
        db = UnitDatabase.GetSingleton()
        for l in cfg.get("limited", []):
            dv = None
            if l["is_min_exclusive"] or l["is_max_exclusive"]:
                lo = l["min_value"] if l["min_value"] is not None else -5.0
                hi = l["max_value"] if l["max_value"] is not None else lo + 10.0
                dv = (lo + hi) / 2.0
            db.AddCategory(
                l["category"],
                l["quantity_type"],
                min_value=l["min_value"],
                max_value=l["max_value"],
                default_unit=l["default_unit"],
                default_value=dv,
                is_min_exclusive=l["is_min_exclusive"],
                is_max_exclusive=l["is_max_exclusive"],
            )

    def info(self, cfg):
        return W.posc_info() if cfg["world"] == "W-POSC" else W.simple_info()

    def make_gen(self, rng, cfg):
        return ValueGen(rng, cfg, self.info(cfg))

    def make_sim(self, cfg, known):
        sim = Sim(self.prop, cfg, src_prefix(), known)
        sim.oracles = PropFilter(self.prop)
        sim.monitors = self.monitors(cfg)
        return sim

    def monitors(self, cfg):
        return []

    def focus(self, cfg):
        types = [b[0] for b in cfg["basis"]]
        cats = sorted(set(c for b in cfg["basis"] for c in b[2]) | set(c for c, _ in cfg.get("limited_cats", [])))
        units = sorted(set(u for b in cfg["basis"] for u in b[1]))
        return (types, cats, units)

    def cross_executions(self, full, known):
        if self.use_nf:
            return nf_diff(self, full, known, self.prop + ".nf_diff")
        return None

    def restart_check(self, sim, i, v, before, now, step):
        pass


REG_FORMS_SAFE = ["unit_dup", "base_dup", "cat_dup", "cat_foreign_default", "cat_bad_limits", "cat_new", "cat_new", "cat_copy", "unit_new", "unit_new", "cat_override", "cat_override"]


class C07(ValueProfile):
    prop = "C07"
    reg_forms = REG_FORMS_SAFE + ["cat_retype"]
    expected_faults = ["F1.incompatible", "F1.unknown_name", "F2.peer_exception", "F5.restart", "F7.interrupt", "F7.interrupt_sweep_point"]
    use_reg = True
    intr_reg = True
    client_bias = {"inspector": 1.5, "calculator": 1.5, "curator": 0.3, "registrar": 0.4}
    family_bias = {"curve": 0.2, "fixed": 0.4}

    xrestart_every = 24  # one run in so many (by seed) also restarts into a fresh interpreter

    def monitors(self, cfg):
        return [Mon.QSweep("C07", eager_full=cfg.get("eager_full", True))]

    def cross_executions(self, full, known):
        """RESTART-X: the durable state of the run's first restart is additionally loaded by a
        fresh interpreter started under another PYTHONHASHSEED (sim/xrestart.py)."""
        first = full.get("first_restart")
        if not first or full["cfg"].get("seed", 1) % self.xrestart_every != 0:
            return None
        import json
        import os
        import pickle
        import subprocess
        import sys

        from ..boot import VERIF_DIR

        env = dict(os.environ)
        env["PYTHONHASHSEED"] = "4242"
        env["BARRIL_VERIF_BOOTED"] = "1"
        payload = pickle.dumps({"prop": self.prop, "cfg": full["cfg"], "dyn_regs": first["dyn_regs"], "items": first["items"]})
        p = subprocess.run([sys.executable, os.path.join(VERIF_DIR, "sim", "xrestart.py")], input=payload, stdout=subprocess.PIPE, stderr=subprocess.PIPE, env=env, timeout=120)
        line = [l for l in p.stdout.decode(errors="replace").splitlines() if l.startswith("XRESTART-RESULT ")]
        if p.returncode != 0 or not line:
            from ..proc import HarnessError

            raise HarnessError("fresh-interpreter restart failed (rc %s): %s" % (p.returncode, p.stderr.decode(errors="replace")[-1500:]))
        res = json.loads(line[-1][len("XRESTART-RESULT ") :])
        out = {"violations": [], "execs": {"RESTART-X": 1}, "oracle_checks": res["checks"], "known_hits": []}
        for v in res["violations"]:
            if v["step"] == -1:
                v["step"] = first["step"]
            hit = False
            for k_oracle, k_sig, k_id in known:
                if k_oracle == v["oracle"] and all(v["sig"].get(x) == y for x, y in k_sig.items()):
                    v["known"] = k_id
                    out["known_hits"].append(v)
                    hit = True
            if not hit:
                out["violations"].append(v)
                break
        return out

    def restart_check(self, sim, i, v, before, now, step):
        # every quantity (bare or inside an unpickled Scalar / FixedArray) has the getter fingerprint
        # it had before the restart
        import barril.units as u

        if isinstance(v, u.Quantity):
            a, b = before, now
        else:
            a, b = before[-2] if before[0] in ("S", "FA") else None, now[-2] if now[0] in ("S", "FA") else None
            if before[0] == "S":
                a, b = before[1], now[1]
            elif before[0] == "FA":
                a, b = before[2], now[2]
        sim.check(
            a == b,
            "C07.restart_equal",
            {"case": "quantity_differs_after_restart", "class": type(v).__name__},
            step,
            lambda: "step %s: before restart %r, after %r" % (i, a, b),
        )


class C13(ValueProfile):
    prop = "C13"
    expected_faults = ["F1.incompatible", "F2.peer_exception", "F5.restart", "F7.interrupt"]
    use_nf = True
    use_reg = True
    reg_forms = REG_FORMS_SAFE
    limited_prob = 0.6
    client_bias = {"validator": 1.5, "persister": 1.5, "registrar": 0.4}

    def monitors(self, cfg):
        return [Mon.VSweep("C13"), Mon.ValidityWatch("C13")]

    def restart_check(self, sim, i, v, before, now, step):
        sim.check(
            before == now,
            "C13.restart_equal",
            {"case": "value_differs_after_restart", "class": type(v).__name__},
            step,
            lambda: "step %s: before restart %r, after %r" % (i, before, now),
        )


class C05(ValueProfile):
    prop = "C05"
    expected_faults = ["F1.incompatible", "F1.unknown_name", "F2.peer_exception", "F7.interrupt", "F7.interrupt_sweep_point"]
    use_nf = True
    use_restart = False
    use_reg = True
    intr_reg = True
    reg_forms = ["unit_dup", "unit_dup", "base_dup", "cat_dup", "cat_foreign_default", "cat_foreign_valid", "cat_new", "cat_new", "cat_copy", "cat_bad_limits", "unit_new", "unit_new", "cat_override", "cat_retype", "cat_retype"]
    client_bias = {"saboteur": 3.0, "curator": 0.4, "registrar": 0.6}
    family_bias = {"curve": 0.2}
    flt_kinds = ["pair", "pair", "convert", "convert", "create", "create", "unknown"]

    def draw_cfg(self, rng, tier):
        cfg = ValueProfile.draw_cfg(self, rng, tier)
        if "saboteur" not in cfg["clients"]:
            cfg["clients"].append("saboteur")
            cfg["client_weights"].append(2.0)
        return cfg

    def monitors(self, cfg):
        only_faults = lambda op: bool(op.get("f")) and not op["k"].startswith("reg.")
        return [
            Mon.VSweep("C05", oracle="C05.unchanged"),
            Mon.QSweep("C05", eager_full=False, check_cache_keys=False, single_oracle="C05.unchanged"),
            Mon.RSnap("C05.unchanged", applies=only_faults, focus=self.focus(cfg), full_at_end=False),
        ]


class C11(ValueProfile):
    prop = "C11"
    expected_faults = ["F1.bad_arg", "F2.peer_exception", "F5.restart", "F7.interrupt"]
    use_reg = True
    reg_forms = ["unit_new"]
    client_bias = {"curator": 4.0, "saboteur": 1.5, "inspector": 0.4, "validator": 0.4, "registrar": 0.2}
    family_bias = {"curve": 1.5, "fixed": 2.0}
    flt_kinds = ["badarg", "badarg", "badarg", "convert", "pair"]

    def draw_cfg(self, rng, tier):
        cfg = ValueProfile.draw_cfg(self, rng, tier)
        if "curator" not in cfg["clients"]:
            cfg["clients"].append("curator")
            cfg["client_weights"].append(3.0)
        return cfg

    def monitors(self, cfg):
        return [Mon.CurveWatch(), Mon.SInv("C11"), Mon.VSweep("C11", oracle="C11.source_unchanged")]

    def restart_check(self, sim, i, v, before, now, step):
        import barril.units as u

        if isinstance(v, u.FixedArray):
            sim.check(
                before == now and len(v.GetValues()) == v.dimension,
                "C11.restart_dimension",
                {"case": "fixedarray_differs_after_restart"},
                step,
                lambda: "step %s: before restart %r, after %r" % (i, before, now),
            )
