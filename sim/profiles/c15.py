"""
C15 — queries are pure and caches are semantically invisible.

N clients' query / failure / registration streams are interleaved by the seeded scheduler on one
shared database.  Oracles:
  C15.pure             registry snapshot equal around every non-registration step (FULL)
  C15.warm_cold        outcome of query i in FULL == outcome of the same closed query evaluated in a
                       grandchild forked from a replica that has executed nothing but the registrations
  C15.reg_independent  outcome and resulting registry of every registration equal in FULL and replica
  C15.nf_diff          removing the failing / interrupted operations changes no other outcome
"""
from .. import fp as F
from .. import monitors as Mon
from .. import query as Q
from .. import world as W
from ..engine import Sim, digest
from ..oracles import PropFilter
from ..proc import run_in_child
from ..runner import RUN_TIMEOUT, _drive, child_replay, nf_diff, src_prefix
from . import c14
from .c14 import NOPE_C, NOPE_T, NOPE_U, RegGen, RegModel

QUERY_CLIENTS = ["calculator", "inspector", "validator"]


def _db():
    from barril.units.unit_database import UnitDatabase

    return UnitDatabase.GetSingleton()


class C15Gen:
    def __init__(self, rng, cfg):
        self.rng = rng
        self.cfg = cfg
        self.reg = RegGen(rng, cfg)
        self.T = c14.pool_types(cfg)
        self.types = cfg["types"]
        self.cats = cfg["cats"]
        self.i = 0
        self.n = 0
        self.failed = []  # names that failed in a query and are not registered yet (look-ahead targets)
        self.swept = False
        self.box_registered = False
        self.asked = []  # closed queries asked so far (re-asked later: the memoised / second answer)

    # ---------------------------------------------------------------- pickers
    def units_of(self, t):
        return [u for u, _, _ in self.T[t]]

    def registered_units(self, model, t):
        return [u for u in self.units_of(t) if u in model.units and model.units[u]["type"] == t]

    def pick_type(self):
        return self.rng.choice(self.types)

    def pick_unit(self, model, t, want_registered=True):
        leg = (self.cfg.get("legacy") or {}).get(t)
        if leg and self.rng.random() < 0.3:
            return self.rng.choice(leg)[0]
        reg = self.registered_units(model, t)
        if want_registered and reg:
            return self.rng.choice(reg)
        return self.rng.choice(self.units_of(t))

    def pick_cat(self, model, t=None, want_registered=True):
        if want_registered:
            cs = [c for c in self.cats if c in model.cats and (t is None or model.cats[c].get("type") == t)]
            if cs:
                return self.rng.choice(cs)
        return self.rng.choice(self.cats)

    def value(self):
        return self.rng.choice([0.0, 1.0, 2.0, 5.0, -3.0, 7.5, 100.0, 0.5, 1000.0, -10.0, 12.0])

    # ---------------------------------------------------------------- main
    def __call__(self, sim):
        if self.n >= self.cfg["n_steps"]:
            return None
        self.n += 1
        rng = self.rng
        model = sim.user["model"]
        w = self.cfg["client_weights"]
        client = rng.choices(["registrar"] + QUERY_CLIENTS + ["saboteur"], weights=[w["registrar"], w["calculator"], w["inspector"], w["validator"], w["saboteur"]])[0]
        if getattr(self, "pair", None):
            client = "inspector"
            op = self.qop(self.pair)
            self.pair = None
        elif getattr(self, "stale_probes", None) and rng.random() < 0.5:
            # right after a Clear(): ask again about names that were valid before it
            c, u = self.stale_probes.pop()
            client = "saboteur"
            op = self.qop(rng.choice([["db", "CheckCategoryUnit", [c, u]], ["S", 1.0, u, c], ["Q", u, c, None], ["db", "Convert", [c, u, u, 1.0]], ["dbl", "GetValidUnits", [c]]]), f="F1.lookahead")
        elif sim.ops and sim.ops[-1].get("reg") and sim.log[-1][3] == "exc" and rng.random() < 0.5:
            # right after a REJECTED registration: ask about the names it mentioned (a fresh database
            # built from the accepted registrations has never heard of that call)
            client = "inspector"
            op = self.qop(self.probe_after_rejection(sim.ops[-1]["reg"], model))
        elif sim.ops and sim.ops[-1].get("reg") and sim.log[-1][3] == "ok" and self.asked and rng.random() < 0.35:
            # right after an ACCEPTED registration: a question that was already asked before it and
            # mentions one of its names (or its quantity type's categories) is asked again
            reg = sim.ops[-1]["reg"]
            kw = reg.get("kw") or {}
            t = reg.get("type") or kw.get("quantity_type")
            names = {x for x in (reg.get("unit"), reg.get("category"), t) if isinstance(x, str)}
            names |= {c for c, ent in model.cats.items() if ent.get("type") == t}
            names |= {u for u, ent in model.units.items() if ent.get("type") == t}
            related = [e for e in self.asked[-25:] if Q.names(e) & names]
            client = "inspector"
            op = self.qop(rng.choice(related or self.asked[-8:]))
        elif getattr(self, "rebuild", 0) > 0 and rng.random() < 0.6:
            self.rebuild -= 1
            client = "registrar"
            op = self.g_constructive(sim, model) or self.g_registration(sim, model)
        elif self.n <= self.cfg.get("preamble", 0):
            client = "registrar"
            op = self.g_constructive(sim, model) or self.g_registration(sim, model)
        elif client == "registrar" and self.cfg.get("box_conversion") and not self.box_registered and self.n > 4 and rng.random() < 0.25:
            # a class-level registration: the caller's own container class gets a conversion function
            self.box_registered = True
            op = {"k": "reg.RegisterConversion", "t": "py", "m": "register_box_conversion", "a": [], "reg": {"kind": "RegisterConversion"}}
        elif client == "registrar":
            op = self.g_registration(sim, model)
        elif client == "saboteur":
            op = self.g_failing(sim, model)
        else:
            if self.asked and rng.random() < self.cfg.get("repeat_rate", 0.15):
                op = self.qop(rng.choice(self.asked[-12:]))
            else:
                op = self.g_query(sim, model, client)
                self.asked.append(op["a"][0]["J"])
            r = rng.random()
            if self.cfg.get("intr_rate", 0) and r < self.cfg["intr_rate"]:
                op["intr"] = int(min(400, max(1, rng.expovariate(1.0 / self.cfg.get("intr_mean", 40)))))
                op["f"] = "F7.interrupt"
            elif self.cfg.get("peer_rate", 0) and r > 1 - self.cfg["peer_rate"] and self.cfg.get("has_callables"):
                op["peer"] = rng.choice([1, 1, 2, 3])
                op["f"] = "F2.peer_exception"
        if (
            op.get("reg")
            and op["reg"]["kind"] in ("AddCategory", "AddUnit", "AddUnitBase")
            and not self.swept
            and self.n > 3
            and rng.random() < self.cfg.get("sweep_rate", 0)
        ):
            # interrupt sweep: every line position of this registration is tried in a forked
            # grandchild, followed by closed queries about the names it mentions; each answer is
            # compared with a cold database that reports the same registry (with or without it)
            self.swept = True
            probes = []
            for _ in range(4):
                q = self.qop(self.probe_after_rejection(op["reg"], model))
                if q["a"] not in [x["a"] for x in probes]:
                    probes.append(q)
            names = Q.names([op["reg"].get("category"), op["reg"].get("unit"), op["reg"].get("type")])
            for e in reversed(self.asked[-20:]):
                if len(probes) >= 6:
                    break
                if Q.names(e) & names and {"J": e} not in [x["a"][0] for x in probes]:
                    probes.append(self.qop(e))
            for q in probes:
                q["c"] = "inspector"
            op["sweep"] = True
            op["probes"] = probes
        op["c"] = client
        op["i"] = self.i
        self.i += 1
        return op

    def probe_after_rejection(self, reg, model):
        rng = self.rng
        kw = reg.get("kw") or {}
        t = reg.get("type") or kw.get("quantity_type")
        u = reg.get("unit")
        c = reg.get("category")
        table = [["db", "GetQuantityTypes", []], ["dbl", "IterCategories", []]]
        if isinstance(t, str):
            table += [["dbl", "GetUnits", [t]], ["db", "GetBaseUnit", [t]], ["dbl", "GetUnitNames", [t]], ["db", "CheckQuantityType", [t]]] * 2
        if isinstance(u, str):
            table += [["db", "GetQuantityType", [u]], ["db", "GetDefaultCategory", [u]], ["S", 1.0, u, None], ["Q", u, None, None]]
            if isinstance(t, str):
                table += [["db", "CheckQuantityTypeUnit", [t, u]], ["db", "GetUnitName", [t, u]], ["db", "Convert", [t, u, u, 2.0]]]
        if isinstance(c, str):
            table += [["db", "IsValidCategory", [c]], ["db", "GetCategoryInfo", [c]], ["dbl", "GetValidUnits", [c]], ["db", "GetDefaultUnit", [c]], ["Sc", c], ["Qn", c]] * 2
            if isinstance(u, str):
                table += [["db", "CheckCategoryUnit", [c, u]], ["S", 1.0, u, c]]
        return rng.choice(table)

    def g_registration(self, sim, model):
        rng = self.rng
        w = self.cfg["weights"]
        # F1': prefer registering a name whose lookup failed earlier (the negative-memo scenario)
        if self.failed and rng.random() < 0.5:
            name = self.failed.pop(rng.randrange(len(self.failed)))
            for t in self.types:
                for u, nm, k in self.T[t]:
                    if u == name and u not in model.units:
                        if isinstance(k, list):
                            k = tuple(k)
                        if k is None:
                            return self.reg._op("reg.AddUnitBase", "AddUnitBase", [t, nm, u], reg={"kind": "AddUnitBase", "type": t, "unit": u, "name": nm})
                        fb, tb = self.reg.conv(k)
                        return self.reg._op("reg.AddUnit", "AddUnit", [t, nm, u, fb, tb], reg={"kind": "AddUnit", "type": t, "unit": u, "name": nm, "k": list(k) if isinstance(k, tuple) else k, "default_category": None, "bad": None})
            if name in self.cats and name not in model.cats:
                ts = [t for t in self.types if t in model.types]
                if ts:
                    t = rng.choice(ts)
                    return self.reg._op("reg.AddCategory", "AddCategory", [name, t], reg={"kind": "AddCategory", "category": name, "kw": {"quantity_type": t}})
        if rng.random() < self.cfg.get("constructive", 0.6):
            op = self.g_constructive(sim, model)
            if op is not None:
                return op
        kind = rng.choices(["base", "unit", "cat", "clear"], weights=[w["base"], w["unit"], w["cat"], w["clear"]])[0]
        if kind == "clear":
            if self.n < 6:
                kind = "cat"
            else:
                self.rebuild = rng.randint(2, 6)  # the database is rebuilt, not necessarily the same way
                # generation guidance only (never an oracle): pairs the library has memoised a verdict for
                pairs = sorted((c, u) for (c, u) in _db()._category_unit_valid if isinstance(c, str) and isinstance(u, str))
                pairs += [(c, u) for c in self.cats if c in model.cats for u in self.registered_units(model, model.cats[c].get("type")) if model.cats[c].get("type") in self.T][:2]
                rng.shuffle(pairs)
                self.stale_probes = pairs[:3]
        return getattr(self.reg, "g_" + kind)(sim, model)

    def g_constructive(self, sim, model):
        """A registration that is expected to be accepted and that later queries can use."""
        rng = self.rng
        R = self.reg
        todo = []
        for t in self.types:
            rows = [tuple(x) for x in self.T[t]]
            if t not in model.types and rows[0][2] is None:
                todo.append(("base", t, rows[0]))
                continue
            for row in rows:
                if row[0] not in model.units and row[2] is not None and t in model.types:
                    todo.append(("unit", t, row))
        ready = [t for t in self.types if t in model.types]
        for c in self.cats:
            if c not in model.cats and ready:
                todo.append(("cat", c, None))
        have = [c for c in self.cats if c in model.cats]
        if have and ready:
            todo.append(("override", rng.choice(have), None))
            todo.append(("override", rng.choice(have), None))
        if not todo:
            return None
        what, a, row = rng.choice(todo)
        if what == "base":
            u, nm, _ = row
            return R._op("reg.AddUnitBase", "AddUnitBase", [a, nm, u], reg={"kind": "AddUnitBase", "type": a, "unit": u, "name": nm})
        if what == "unit":
            u, nm, k = row
            if isinstance(k, list):
                k = tuple(k)
            fb, tb = R.conv(k)
            return R._op("reg.AddUnit", "AddUnit", [a, nm, u, fb, tb], reg={"kind": "AddUnit", "type": a, "unit": u, "name": nm, "k": list(k) if isinstance(k, tuple) else k, "default_category": None, "bad": None})
        if what == "cat":
            t = rng.choice(ready)
            kw = {}
            regu = self.registered_units(model, t)
            if regu and rng.random() < 0.4:
                kw["valid_units"] = {"L": sorted(set(rng.choice(regu) for _ in range(2)))}
            if regu and rng.random() < 0.4:
                kw["default_unit"] = rng.choice(kw["valid_units"]["L"] if "valid_units" in kw else regu)
            if rng.random() < 0.4:
                kw["min_value"] = rng.choice([0.0, -10.0])
            if rng.random() < 0.3:
                kw["max_value"] = rng.choice([100.0, 1000.0])
            regkw = {k: (v["L"] if isinstance(v, dict) else v) for k, v in kw.items()}
            regkw["quantity_type"] = t
            return R._op("reg.AddCategory", "AddCategory", [a, t], kw=kw or None, reg={"kind": "AddCategory", "category": a, "kw": regkw})
        # override an existing category: other limits / default unit / even another quantity type
        t = rng.choice(ready) if rng.random() < 0.3 else (model.cats[a].get("type") if model.cats[a].get("type") in ready else rng.choice(ready))
        kw = {"override": True}
        regu = self.registered_units(model, t)
        r = rng.random()
        if r < 0.5:
            kw["max_value"] = rng.choice([0.5, 5.0, 50.0])
            kw["min_value"] = rng.choice([-100.0, 0.0])
        if regu and rng.random() < 0.6:
            kw["default_unit"] = rng.choice(regu)
        if regu and rng.random() < 0.4:
            kw["valid_units"] = {"L": sorted(set([kw.get("default_unit") or regu[0], rng.choice(regu)]))}
        regkw = {k: (v["L"] if isinstance(v, dict) else v) for k, v in kw.items()}
        regkw["quantity_type"] = t
        return R._op("reg.AddCategory", "AddCategory", [a, t], kw=kw, reg={"kind": "AddCategory", "category": a, "kw": regkw})

    def qop(self, expr, f=None):
        d = {"k": "q." + Q.label(expr), "t": "py", "m": "query", "a": [{"J": expr}]}
        if f:
            d["f"] = f
        return d

    # ---------------------------------------------------------------- queries
    def leaf_scalar(self, model, t=None, registered=True):
        t = t or self.pick_type()
        u = self.pick_unit(model, t, registered)
        r = self.rng.random()
        if r < 0.45:
            return ["S", self.value(), u, self.pick_cat(model, t, registered)]
        if r < 0.8:
            return ["S", self.value(), u, None]
        if r < 0.9:
            return ["Sc", self.pick_cat(model, t, registered)]
        return ["Scu", self.pick_cat(model, t, registered), u]

    def g_other_db(self, model):
        """The same (category, unit) names asked of the database under test and of the second
        instance: whatever one of them memoises must not leak into the other's answers."""
        rng = self.rng
        c = rng.choice(OTHER_CATS + [x for x in self.cats][:2])
        u = rng.choice(OTHER_UNITS + [x for t in self.types for x in self.units_of(t)][:3] + ["ft"])
        u2 = rng.choice(OTHER_UNITS)
        tag = rng.choice(["db", "db2", "db2", "db2"])
        tagl = tag + "l"
        table = [
            [tag, "CheckCategoryUnit", [c, u]],
            [tag, "CheckCategoryUnit", [c, u]],
            [tagl, "GetValidUnits", [c]],
            [tag, "GetDefaultUnit", [c]],
            [tag, "Convert", [c, u, u2, 2.0]],
            [tag, "CheckValueForCategory", [c, -1.0, u]],
            [tag, "GetQuantityType", [u]],
            [tag, "GetDefaultCategory", [u]],
            [tag, "GetCategoryInfo", [c]],
            [tag, "CheckQuantityTypeUnit", [rng.choice(["length", "time"]), u]],
        ]
        if tag == "db":
            table += [["S", 1.0, u, c], ["Q", u, c, None], ["m", ["S", 1.0, u, c], "IsValid", []]]
        e = rng.choice(table)
        if e[0] in ("db", "db2", "dbl", "db2l") and rng.random() < 0.7:
            # the same question to the OTHER instance right afterwards
            flip = {"db": "db2", "db2": "db", "dbl": "db2l", "db2l": "dbl"}
            self.pair = [flip[e[0]]] + e[1:]
        return e

    def g_query(self, sim, model, client, registered=None):
        rng = self.rng
        if rng.random() < self.cfg.get("other_db_rate", 0.1):
            return self.qop(self.g_other_db(model))
        if registered is None:
            registered = rng.random() < 0.8
        t = self.pick_type()
        leg = self.cfg.get("legacy") or {}
        if leg and rng.random() < 0.25:
            # the legacy spelling in use: values are built with it, and the database is asked about it
            t = sorted(leg)[0]
            lu = leg[t][0][0]
            c = self.pick_cat(model, t, True)
            return self.qop(rng.choice([["S", self.value(), lu, c], ["S", self.value(), lu, c], ["db", "CheckCategoryUnit", [c, lu]], ["db", "CheckQuantityTypeUnit", [t, lu]], ["Q", lu, c, "cap"], ["Q", lu, c, None], ["m", ["Q", lu, c, "cap"], "GetUnit", []], ["m", ["S", 1.0, lu, c], "GetUnit", []]]))
        u = self.pick_unit(model, t, registered)
        u2 = self.pick_unit(model, t, registered)
        c = self.pick_cat(model, t, registered)
        v = self.value()
        if client == "inspector":
            table = [
                ["dbl", "GetValidUnits", [c]],
                ["dbl", "GetValidUnits", [c]],
                ["db", "GetDefaultUnit", [c]],
                ["db", "GetDefaultValue", [c]],
                ["db", "GetCategoryInfo", [c]],
                ["db", "GetCategoryQuantityType", [c]],
                ["db", "IsValidCategory", [c]],
                ["dbl", "GetUnits", [t]],
                ["dbl", "GetUnitNames", [t]],
                ["db", "GetBaseUnit", [t]],
                ["db", "GetQuantityType", [u]],
                ["db", "GetDefaultCategory", [u]],
                ["db", "GetUnitName", [t, u]],
                ["db", "CheckCategoryUnit", [c, u]],
                ["db", "CheckQuantityTypeUnit", [t, u]],
                ["db", "FindUnitCase", [c, u.upper()]],
                ["db", "GetQuantityTypes", []],
                ["dbl", "IterCategories", []],
                ["m", self.leaf_scalar(model, t, registered), "GetValidUnits", []],
                ["m", self.leaf_scalar(model, t, registered), "GetValidUnits", []],
                ["m", ["A", rng.choice(["L", "T", "N"]), [v, 1.0], u, c], "GetValidUnits", []],
                ["m", ["Q", u, c, None], "GetValidUnits", []],
                ["m", ["Q", u, c, None], "GetCategoryInfo", []],
                ["m", ["Q", u, None, None], "GetCategoryInfo", []],
                ["Q", u, c, None],
                ["Q", u, None, None],
                ["Qn", c],
                ["Q", u, c, "cap"],
                ["m", ["Q", u, c, None], "GetUnitName", []],
                ["m", self.leaf_scalar(model, t, registered), "GetUnitName", []],
                ["m", ["FS", 2.0, [1, 2], u, c], "GetValidUnits", []],
            ]
            return self.qop(rng.choice(table))
        if client == "validator":
            s = self.leaf_scalar(model, t, registered)
            if rng.random() < 0.2:
                # one object, asked twice (the per-Array validity memo is a cache as well); amounts
                # include 0, for which a reciprocal conversion raises ZeroDivisionError
                obj = rng.choice([["A", rng.choice(["L", "T", "N"]), [0.0, v, self.value()], u, c], ["A", "L", [v, 0.0], u, c], s, ["FS", abs(v), [1, 2], u, c]])
                d = self.qop(["twice", obj, rng.choice(["IsValid", "IsValid", "CheckValidity"]), []])
                d["x"] = [{"o": "twice_same", "p": "C15", "id": "C15.warm_cold"}]
                return d
            table = [
                ["m", s, "IsValid", []],
                ["m", s, "CheckValidity", []],
                ["db", "CheckValueForCategory", [c, v, u]],
                ["m", ["Q", u, c, None], "CheckValue", [v]],
                ["m", ["A", rng.choice(["L", "T", "N"]), [v, self.value(), self.value()], u, c], "IsValid", []],
                ["m", ["A", "L", [v, self.value()], u, c], "CheckValidity", []],
                ["m", ["FS", abs(v), [1, 2], u, c], "IsValid", []],
                ["val", ["S", v, u, c]],
                ["m", ["Sc", c], "IsValid", []],
                ["m", ["Scu", c, u], "IsValid", []],
                ["Sc", c],
                ["Scu", c, u],
            ]
            return self.qop(rng.choice(table))
        # calculator
        s1 = self.leaf_scalar(model, t, registered)
        t2 = self.pick_type() if rng.random() < 0.5 else t
        s2 = self.leaf_scalar(model, t2, registered)
        a1 = ["A", rng.choice(["L", "T", "N"]), [v, 2.0], u, c if rng.random() < 0.5 else None]
        a2 = ["A", rng.choice(["L", "T", "N"]), [1.0, self.value()], u2, None]
        op = rng.choice(["add", "sub", "mul", "truediv"])
        # same-type leaves in different units / categories: derived operands whose composing map
        # mentions one quantity type twice (the only place where a sum has to rewrite a unit inside
        # the left operand's own map)
        same = [self.leaf_scalar(model, t, registered) for _ in range(4)]
        cs = [x for x in self.cats if x in model.cats and model.cats[x].get("type") == t]
        us = self.registered_units(model, t)
        if len(cs) >= 2 and len(us) >= 2 and rng.random() < 0.2:
            c1, c2 = rng.sample(cs, 2)
            u1, u2 = rng.sample(us, 2)
            e1, e2 = rng.choice([(1, 1), (1, 1), (1, -1), (2, 1)])
            if rng.random() < 0.5:
                left = ["Sq", ["Qd", [[c1, u1, e1], [c2, u2, e2]]], v]
                right = ["Sq", ["Qd", [[c1, u1, e1], [c2, u1, e2]]], self.value()]
            else:
                kind = rng.choice(["L", "T", "N"])
                left = ["Aq", ["Qd", [[c1, u1, e1], [c2, u2, e2]]], kind, [v, self.value()]]
                right = ["Aq", ["Qd", [[c1, u1, e1], [c2, u1, e2]]], kind, [1.0, self.value()]]
            q = ["bin", rng.choice(["add", "sub"]), left, right]
            if rng.random() < 0.5:
                q = ["m", q, rng.choice(["GetUnit", "GetValue", "GetQuantity"]), []]
            if rng.random() < 0.6:
                self.asked.append(q)  # likely to be asked again
            return self.qop(q)
        table = [
            ["bin", rng.choice(["add", "sub"]), ["bin", "mul", same[0], same[1]], ["bin", "mul", same[2], same[3]]],
            ["bin", rng.choice(["add", "sub"]), ["bin", "truediv", same[0], s2], ["bin", "truediv", same[2], s2]],
            ["m", ["bin", "add", ["bin", "mul", same[0], same[1]], ["bin", "mul", same[2], same[3]]], "GetQuantity", []],
            ["bin", op, s1, s2],
            ["bin", op, s1, s2],
            ["bin", op, a1, a2],
            ["m", ["bin", "mul", s1, s2], "GetUnit", []],
            ["m", ["bin", "truediv", s1, s2], "GetQuantityType", []],
            ["bin", "mul", ["bin", "mul", s1, s2], s1],
            ["num", op, s1, 2.0, rng.choice(["l", "r"])],
            ["pow", s1, rng.choice([2, 3])],
            ["m", s1, "GetValue", [u2]],
            ["m", a1, "GetValues", [u2]],
            ["mk", s1, "CreateCopy", {"unit": u2}],
            ["mk", s1, "CreateCopy", {"unit": u2, "category": c}],
            ["db", "Convert", [t, u, u2, v]],
            ["db", "Convert", [c, u, u2, [v, 1.0]]],
        ] + ([["db", "Convert", [t, u, u2, {"box": [v, 2.0]}]]] * 3 if self.cfg.get("box_conversion") else []) + [
            ["m", ["Q", u, c, None], "ConvertScalarValue", [v, u2]],
            ["bin", "lt", s1, ["S", self.value(), u2, None]],
            ["bin", "eq", s1, s2],
            ["m", ["FS", 1.0, [1, 4], u, c], "GetValue", [u2]],
            ["m", ["FA", 2, [v, 1.0], u], "IndexAsScalar", [0]],
            ["Qd", [[c, u, 1], [self.pick_cat(model, t2, registered), self.pick_unit(model, t2, registered), -1]]],
            ["m", ["Qd", [[c, u, 2]]], "GetUnit", []],
        ]
        return self.qop(rng.choice(table))

    def g_failing(self, sim, model):
        """A lookup / construction the library is expected to refuse (unregistered or foreign name)."""
        rng = self.rng
        t = self.pick_type()
        unreg_units = [u for u in self.units_of(t) if u not in model.units]
        unreg_cats = [c for c in self.cats if c not in model.cats]
        r = rng.random()
        lookahead = False
        if unreg_units and r < 0.45:
            u = rng.choice(unreg_units)
            lookahead = True
            self.failed.append(u)
            c = self.pick_cat(model, t, True)
            expr = rng.choice(
                [
                    ["S", 1.0, u, c],
                    ["S", 1.0, u, None],
                    ["db", "CheckCategoryUnit", [c, u]],
                    ["db", "Convert", [t, self.pick_unit(model, t), u, 1.0]],
                    ["Q", u, c, None],
                    ["m", ["S", 1.0, self.pick_unit(model, t), c], "GetValue", [u]],
                    ["A", "L", [1.0], u, c],
                    ["db", "GetUnitName", [t, u]],
                ]
            )
        elif unreg_cats and r < 0.75:
            c = rng.choice(unreg_cats)
            lookahead = True
            self.failed.append(c)
            u = self.pick_unit(model, t, True)
            expr = rng.choice(
                [
                    ["S", 1.0, u, c],
                    ["Sc", c],
                    ["db", "CheckCategoryUnit", [c, u]],
                    ["dbl", "GetValidUnits", [c]],
                    ["db", "GetCategoryInfo", [c]],
                    ["Q", u, c, None],
                    ["Qn", c],
                    ["db", "Convert", [c, u, u, 1.0]],
                ]
            )
        else:
            # foreign unit for a category / incompatible operands / unknown names
            others = [x for x in self.types if x != t]
            u = self.pick_unit(model, t, True)
            if others:
                t2 = rng.choice(others)
                fu = self.pick_unit(model, t2, True)
                c = self.pick_cat(model, t, True)
                expr = rng.choice(
                    [
                        ["S", 1.0, fu, c],
                        ["bin", "add", ["S", 1.0, u, None], ["S", 1.0, fu, None]],
                        ["db", "Convert", [t, u, fu, 1.0]],
                        ["db", "CheckCategoryUnit", [c, fu]],
                        ["m", ["S", 1.0, u, None], "GetValue", [fu]],
                        ["bin", "lt", ["S", 1.0, u, None], ["S", 1.0, fu, None]],
                    ]
                )
            else:
                expr = rng.choice([["S", 1.0, NOPE_U, None], ["Sc", NOPE_C], ["dbl", "GetUnits", [NOPE_T]], ["db", "CheckCategoryUnit", [NOPE_C, u]]])
        return self.qop(expr, f="F1.lookahead" if lookahead else "F1.rejected_lookup")


# ------------------------------------------------------------------------------------ monitors


class RegTrack(Mon.Monitor):
    """Keeps the (generation-side) model of what is registered and records, for every registration,
    the resulting registry snapshot (compared with the registration-only replica)."""

    def __init__(self, cfg):
        self.cfg = cfg
        self.small = cfg["world"] in ("W-SYN", "W-SIMPLE")

    def snap(self):
        db = _db()
        if self.small:
            return Mon.registry_full(db, probes=True)
        g = self.cfg
        T = c14.pool_types(g)
        units = sorted(set(u for t in g["types"] for u, _, _ in T[t]))
        return [Mon.registry_fast(db), Mon.registry_focus(db, list(g["types"]), list(g["cats"]), units)]

    def after(self, sim, op, out):
        reg = op.get("reg")
        if reg is None:
            return
        if out[0] == "ok":
            sim.user["model"].apply(reg)
            sim.user["registrations"] = sim.user.get("registrations", 0) + 1
            sim.count("accepted:" + reg["kind"])
        elif out[0] == "exc":
            sim.count("rejected:" + reg["kind"])
        sim.user.setdefault("regsnaps", {})[op["i"]] = digest(self.snap())

    def finish(self, sim):
        db = _db()
        sim.user["state"] = repr(
            (
                min(sim.user.get("registrations", 0) // 3, 6),
                min(len(db._category_unit_valid) // 4, 6),
                min(len(db.quantities_cache) // 6, 6),
                any(v is False for v in db._category_unit_valid.values()),
            )
        )
        sim.stats["probe:negative_memo_entries"] = sum(1 for v in db._category_unit_valid.values() if v is False)
        sim.stats["probe:intern_entries"] = len(db.quantities_cache)


def _struct(db):
    """The registry's own tables, used ONLY to recognise a half-done (interrupted) mutator: a state
    in which they differ from both the state before and the state after the completed call is one
    about which nothing is demanded."""
    return [
        sorted((u, i.quantity_type, i.name) for u, i in db.unit_to_unit_info.items()),
        sorted((t, [i.unit for i in infos]) for t, infos in db.quantity_types.items()),
        sorted((c, F.fp(ci)) for c, ci in db.categories_to_quantity_types.items()),
    ]


def sweep_digest(track):
    # the registry's own tables only: taking it asks the database nothing (the cold replica must
    # stay cold: a snapshot through the public getters is itself a history of queries)
    return digest(_struct(_db()))


class OtherDbPure(Mon.Monitor):
    """Nothing done to / asked of the database under test changes what ANOTHER database instance
    reports (registrations included)."""

    def before(self, sim, op):
        self.pre = Mon.registry_full(Q.OTHER["db"], probes=False)

    def after(self, sim, op, out):
        sim.oracle_checks += 1
        now = Mon.registry_full(Q.OTHER["db"], probes=False)
        if now != self.pre:
            sim.violation(
                "C15.pure",
                {"what": "other_database", "op": op["k"][:40], "status": out[0], "fault": op.get("f")},
                op["i"],
                "another UnitDatabase instance changed during %s: %s" % (op["k"], Mon._diff_text(self.pre, now)),
            )


OTHER_CATS = ["length", "time", "depth"]
OTHER_UNITS = ["m", "cm", "km", "mm", "s", "min", "h", "d"]


class C15:
    prop = "C15"
    expected_faults = ["F1.lookahead", "F1.rejected_lookup", "F2.peer_exception", "F7.interrupt", "F7.interrupt_sweep_point"]

    def draw_cfg(self, rng, tier):
        world = rng.choices(["W-SYN", "W-SIMPLE", "W-POSC"], weights=[60, 15, 25])[0]
        cfg = {"prop": "C15", "tier": tier, "world": world}
        if world == "W-POSC":
            info = W.posc_info()
            basis = W.draw_basis(rng, info, n_types=(2, 3), n_units=(2, 3), n_cats=(1, 2), exotic=0.1)
            cfg["legacy"] = {}
            if rng.random() < 0.35:
                # a quantity type some of whose units still have a legacy spelling in circulation
                # ('1000ft3' for 'Mcf', ...): the spelling is accepted wherever a unit is taken
                leg, un, q = rng.choice(W.legacy_spellings(info))
                if q not in [b[0] for b in basis] and info[q]["cats"]:
                    others = [x for x in info[q]["units"] if x != un]
                    basis[0] = (q, [un] + ([rng.choice(others)] if others else []), list(info[q]["cats"][:2]))
                    cfg["legacy"] = {q: [[leg, un]]}
            pool = {}
            cats = []
            for q, us, cs in basis:
                rows = [[u, "existing " + u, 1.0] for u in us[:2]]  # collisions with shipped units: rejected
                tag = q.replace(" ", "")[:6]
                rows += [["sim%sA" % tag, "sim unit A of " + q, 2.0], ["sim%sB" % tag, "sim unit B of " + q, 0.25]]
                pool[q] = rows
                cats += cs + ["sim cat " + tag, "sim cat2 " + tag]
            cfg["pool_types"] = pool
            cfg["types"] = [b[0] for b in basis]
            cfg["cats"] = cats
            cfg["bad_rate"] = 0.5
            lo, hi = (8, 30) if tier == "quick" else (15, 60)
        else:
            names = sorted(c14.TYPES)
            nt = rng.randint(1, 3)
            types = []
            while len(types) < nt:
                t = rng.choice(names)
                if t not in types:
                    types.append(t)
            if world == "W-SIMPLE":
                # the filler's own names collide with the pools on purpose
                cfg["pool_types"] = {
                    "length": [["m", "meters", None], ["cm", "centimeters", 0.01], ["dm", "decimeters", 0.1], ["um", "micrometers", 1e-6]],
                    "time": [["s", "seconds", None], ["ms", "milliseconds", 0.001], ["wk", "weeks", 604800.0]],
                }
                types = ["length", "time"]
                cfg["cats"] = ["length", "time", "depth", "span", "age"]
            else:
                cfg["cats"] = [c for c in c14.CATS if rng.random() < 0.6] or ["len", "tim"]
            cfg["types"] = types
            cfg["bad_rate"] = rng.choice([0.3, 0.6, 1.0])
            lo, hi = (10, 40) if tier == "quick" else (20, 100)
        cfg["n_steps"] = rng.randint(lo, hi)
        cfg["weights"] = {"base": rng.choice([1, 2]), "unit": rng.choice([1, 2, 3]), "cat": rng.choice([2, 3, 5]), "clear": rng.choice([0, 0, 0.5, 1.5]) if world != "W-POSC" else 0, "user": 0}
        cfg["client_weights"] = {
            "registrar": rng.choice([1, 2, 3]),
            "calculator": rng.choice([0, 1, 2]),
            "inspector": rng.choice([1, 2, 3]),
            "validator": rng.choice([0, 1, 2]),
            "saboteur": rng.choice([0.5, 1, 2]),
        }
        cfg["intr_rate"] = rng.choice([0, 0, 0.05, 0.15])
        cfg["intr_mean"] = rng.choice([8, 25, 60])
        cfg["peer_rate"] = rng.choice([0, 0.1, 0.25])
        cfg["has_callables"] = world == "W-SYN"
        cfg["callable_prob"] = rng.choice([0.2, 0.5, 0.8]) if world == "W-SYN" else 0.3
        cfg["preamble"] = rng.choice([0, 2, 4, 6, 8]) if world == "W-SYN" else rng.choice([0, 1, 2])
        cfg["constructive"] = rng.choice([0.3, 0.6, 0.8])
        cfg["cold_checks"] = 12 if tier == "quick" else 10 ** 6
        cfg["repeat_rate"] = rng.choice([0.05, 0.15, 0.3])
        cfg["other_db_rate"] = rng.choice([0, 0.1, 0.2, 0.4])
        cfg["box_conversion"] = rng.random() < 0.25
        cfg["sweep_rate"] = rng.choice([0, 0, 0, 0.1]) if tier == "quick" else rng.choice([0, 0.1, 0.3])
        return cfg

    def setup_world(self, cfg):
        from barril.units.unit_database import UnitDatabase

        # a second database instance living next to the one under test (never the singleton)
        other = UnitDatabase()
        UnitDatabase.FillSimple(other)
        other.AddCategory("depth", "length", valid_units=["m", "km"], default_unit="m", min_value=0.0)
        Q.OTHER["db"] = other
        w = cfg["world"]
        if w == "W-POSC":
            return
        db = UnitDatabase()
        if w == "W-SIMPLE":
            UnitDatabase.FillSimple(db)
        UnitDatabase.PushSingleton(db)

    def make_gen(self, rng, cfg):
        return C15Gen(rng, cfg)

    def make_sim(self, cfg, known):
        sim = Sim("C15", cfg, src_prefix(), known)
        sim.oracles = PropFilter("C15")
        track = RegTrack(cfg)
        small = track.small
        T = c14.pool_types(cfg)
        units = sorted(set(u for t in cfg["types"] for u, _, _ in T[t]))
        focus = None if small else (list(cfg["types"]), list(cfg["cats"]), units)
        pure = Mon.RSnap("C15.pure", applies=lambda op: not op.get("reg"), focus=focus, full_at_end=False, memo_rule=False)
        sim.monitors = [pure, OtherDbPure(), track]
        sim.snap_fn = lambda: sweep_digest(track)
        sim.user["model"] = RegModel.from_db(_db()) if cfg["world"] != "W-SYN" else RegModel()
        return sim

    def restart_check(self, *a):
        pass

    # ---------------------------------------------------------------- cross executions
    def cross_executions(self, full, known):
        out = {"violations": [], "execs": {}, "oracle_checks": 0, "known_hits": []}
        nf = nf_diff(self, full, known, "C15.nf_diff")
        if nf:
            for k in ("violations", "known_hits"):
                out[k].extend(nf[k])
            out["oracle_checks"] += nf["oracle_checks"]
            out["execs"].update(nf["execs"])
            if out["violations"]:
                return out
        ops, log = full["ops"], {e[0]: e for e in full["log"]}
        cands = [o["i"] for o in ops if not o.get("reg") and not o.get("intr") and not o.get("peer") and log.get(o["i"], [0, 0, 0, "skip"])[3] in ("ok", "exc")]
        limit = full["cfg"].get("cold_checks", 12)
        if len(cands) > limit:
            # deterministic choice: queries right after a registration first, then evenly spaced
            after_reg = []
            prev_reg = False
            for o in ops:
                if o.get("reg"):
                    prev_reg = True
                elif o["i"] in cands:
                    if prev_reg:
                        after_reg.append(o["i"])
                    prev_reg = False
            chosen = after_reg[-(limit // 2) :]
            rest = [i for i in cands if i not in chosen]
            step = max(1, len(rest) // max(1, limit - len(chosen)))
            chosen += rest[::step][: limit - len(chosen)]
            cands = sorted(set(chosen))
        accepted = set(o["i"] for o in ops if o.get("reg") and log.get(o["i"], [0, 0, 0, "skip"])[3] == "ok")
        rep = run_in_child(child_reg_cold, (self, full["cfg"], ops, set(), known, None), timeout=RUN_TIMEOUT * 3)
        # the parent of the cold children has executed the ACCEPTED registrations only: a rejected
        # registration is a failing operation, not part of what the fresh database is built from
        sweeps = full.get("sweeps") or {}
        sweep_probes = {o["i"]: o.get("probes", []) for o in ops if o.get("sweep") and sweeps.get(o["i"])}
        repa = run_in_child(child_reg_cold, (self, full["cfg"], ops, set(cands), known, accepted, sweep_probes), timeout=RUN_TIMEOUT * 4)
        rep["cold"] = repa["cold"]
        # interrupt sweeps: each interrupted registration left the registry either as it was or as
        # the completed call leaves it (anything else is a half-done mutator, about which nothing is
        # demanded); the probe answers must be those of a cold database reporting the same thing
        for i, rows in sorted(sweeps.items()):
            ref = repa["sweep"].get(i)
            if not ref:
                continue
            for k, where, dg, answers in rows:
                if dg == ref["pre_digest"]:
                    want, which = ref["pre"], "not_applied"
                elif dg == ref["post_digest"]:
                    want, which = ref["post"], "applied"
                else:
                    out["execs"]["SWEEP-half-state"] = out["execs"].get("SWEEP-half-state", 0) + 1
                    continue
                out["execs"]["SWEEP-point"] = out["execs"].get("SWEEP-point", 0) + 1
                for n, (got, cold) in enumerate(zip(answers, want)):
                    out["oracle_checks"] += 1
                    if list(got) != list(cold):
                        pk = sweep_probes[i][n]["k"]
                        out["violations"].append(
                            {
                                "oracle": "C15.warm_cold",
                                "sig": {"query": _qkind(pk), "after": "interrupted_registration:" + which},
                                "step": i,
                                "detail": "after KeyboardInterrupt at line event %s (%s) of the registration at step %s (registry reports it as %s): query %s answers %r, a cold database reporting the same registry answers %r" % (k, where, i, which, pk, got, cold),
                            }
                        )
                        return out
        out["execs"]["REG"] = 1
        out["execs"]["REG-A"] = 1
        out["execs"]["COLD"] = len(rep["cold"])
        # oracle 3: registrations do not depend on the query history
        regsnaps = full.get("user_regsnaps") or {}
        for i, (st, ofp, snap) in sorted(rep["reg"].items()):
            e = log.get(i)
            if e is None:
                continue
            out["oracle_checks"] += 1
            if e[3] != st or e[4] != ofp or (i in regsnaps and regsnaps[i] != snap):
                what = "outcome" if (e[3] != st or e[4] != ofp) else "resulting_registry"
                out["violations"].append(
                    {
                        "oracle": "C15.reg_independent",
                        "sig": {"kind": e[1], "differs": what},
                        "step": i,
                        "detail": "registration at step %s (%s): with the query history %s %r, on the registration-only replica %s %r (%s differs)" % (i, e[1], e[3], e[4], st, ofp, what),
                    }
                )
                return out
        # oracle 2: warm == cold
        prev_events = _event_index(ops, log)
        for i, (st, ofp) in sorted(rep["cold"].items()):
            e = log[i]
            out["oracle_checks"] += 1
            if e[3] != st or e[4] != ofp:
                out["violations"].append(
                    {
                        "oracle": "C15.warm_cold",
                        "sig": {"query": _qkind(e[1]), "after": prev_events(i)},
                        "step": i,
                        "detail": "query %s at step %s: after the history %s %r, on a fresh database with the same registrations %s %r" % (e[1], i, e[3], e[4], st, ofp),
                    }
                )
                return out
        return out


def _qkind(k):
    return k.split("(")[0][:60]


def _event_index(ops, log):
    """Category of the most recent earlier event that mentions one of the query's names."""

    def names_of(op):
        if op.get("reg"):
            r = op["reg"]
            s = {r.get("unit"), r.get("category"), r.get("type")}
            kw = r.get("kw") or {}
            s |= {kw.get("from_category"), kw.get("quantity_type")}
            return {x for x in s if isinstance(x, str)}
        a = op.get("a") or []
        if a and isinstance(a[0], dict) and "J" in a[0]:
            return Q.names(a[0]["J"])
        return set()

    def prev(i):
        mine = None
        for o in ops:
            if o["i"] == i:
                mine = names_of(o)
        if mine is None:
            return "none"
        last = "none"
        for o in ops:
            if o["i"] >= i:
                break
            if not (names_of(o) & mine):
                continue
            e = log.get(o["i"])
            if o.get("reg"):
                ov = (o["reg"].get("kw") or {}).get("override")
                last = "registration:%s%s" % (o["reg"]["kind"], ":override" if ov else "")
            elif e and e[3] == "exc":
                last = "rejected_lookup"
            elif e and e[3] == "intr":
                last = "interrupted_query"
            else:
                last = "query"
        return last

    return prev


def child_reg_cold(profile, cfg, ops, cold_indices, known, only=None, sweep_probes=None):
    """REG: executes only the reg.* ops (accepted and rejected, in order; with `only`, just the ones
    whose step is listed = REG-A); forks a COLD grandchild at the position of each selected query,
    which evaluates that query alone and exits."""
    profile.setup_world(cfg)
    sim = Sim("C15", cfg, src_prefix(), known)
    sim.oracles = PropFilter("C15")
    track = RegTrack(cfg)
    sim.user["model"] = RegModel()
    out = {"reg": {}, "cold": {}, "sweep": {}}
    sweep_probes = sweep_probes or {}

    def cold_answers(probes):
        return [run_in_child(_cold_one, (cfg, dict(p, i=900000 + n), known), timeout=RUN_TIMEOUT) for n, p in enumerate(probes)]

    for op in ops:
        if op.get("reg"):
            op = {a: b for a, b in op.items() if a not in ("sweep", "probes", "intr")}
            sw = sweep_probes.get(op["i"])
            if sw is not None:
                out["sweep"][op["i"]] = {"pre_digest": sweep_digest(track), "pre": cold_answers(sw)}
            if only is not None and op["i"] not in only:
                if sw is not None:
                    out["sweep"][op["i"]].update({"post_digest": out["sweep"][op["i"]]["pre_digest"], "post": out["sweep"][op["i"]]["pre"]})
                continue
            res = sim.execute(op)
            if sw is not None:
                out["sweep"][op["i"]].update({"post_digest": sweep_digest(track), "post": cold_answers(sw)})
            e = sim.log[-1]
            # REG-A (the parent of the cold children) never asks the database anything
            out["reg"][op["i"]] = [e[3], e[4], digest(track.snap()) if only is None else None]
        elif op["i"] in cold_indices:
            out["cold"][op["i"]] = run_in_child(_cold_one, (cfg, op, known), timeout=RUN_TIMEOUT)
    return out


def _cold_one(cfg, op, known):
    sim = Sim("C15", cfg, src_prefix(), known)
    sim.oracles = {}
    op = dict(op)
    op.pop("x", None)
    sim.execute(op)
    e = sim.log[-1]
    return [e[3], e[4]]
