from .c14 import C14
from .c15 import C15
from .c17 import C17
from .valueworld import C05, C07, C11, C13

REGISTRY = {"C05": C05, "C07": C07, "C11": C11, "C13": C13, "C14": C14, "C15": C15, "C17": C17}
