"""
The simulation engine: executes a history (generated online from one PRNG, or replayed from a
recorded list), runs the step monitors after every step and the op-level oracles, records the
outcome log.  One Sim = one execution in one (forked) process.
"""
import gc
import hashlib
import json

from . import fp as F
from .ops import PEER, Codec, Interrupter, SkipOp, call_op


class StopRun(Exception):
    pass


class Restart(Exception):
    """Raised by the engine when a flt.restart op is reached (handled by the runner)."""


def canon(x):
    return json.dumps(x, sort_keys=True, separators=(",", ":"), allow_nan=True)


def digest(x):
    return hashlib.sha256(canon(x).encode()).hexdigest()


class Sim:
    def __init__(self, prop, cfg, src_prefix, known=None):
        self.prop = prop
        self.cfg = cfg  # plain JSON-able dict (swarm configuration + world description)
        self.pool = {}  # step -> (status, value)
        self.ops = []  # executed ops (the replay file)
        self.log = []  # [i, k, f, status, fingerprint]
        self.violations = []
        self.known_hits = []
        self.known = known or []  # list of (oracle, sig-subset) that are listed findings
        self.stats = {}
        self.monitors = []
        self.oracles = {}
        self.interrupter = Interrupter(src_prefix)
        self.peer_fired = False
        self.tainted = set()  # steps whose object met a transient peer fault
        self.peer_steps = set()  # steps at which a peer fault was actually delivered
        self.step_no = 0
        self.epoch = 0  # incremented at restart
        self.user = {}  # profile-private state (must be picklable for restarts)
        self.oracle_checks = 0
        self.faults_fired = {}
        self.stop_on_violation = True
        self.in_sweep = False
        self.intr_fired = set()  # steps at which the interrupt was actually delivered (whatever came of it)
        self.snap_fn = None  # profile hook: digest of what the shared state reports (interrupt sweeps)

    # ------------------------------------------------------------------ bookkeeping
    def count(self, key, n=1):
        self.stats[key] = self.stats.get(key, 0) + n

    def fired(self, kind, n=1):
        self.faults_fired[kind] = self.faults_fired.get(kind, 0) + n

    def violation(self, oracle, sig, step, detail):
        rec = {"oracle": oracle, "sig": sig, "step": step, "detail": str(detail)[:600]}
        for k_oracle, k_sig, k_id in self.known:
            if k_oracle == oracle and all(sig.get(a) == b for a, b in k_sig.items()):
                rec["known"] = k_id
                if k_id not in [h["known"] for h in self.known_hits]:
                    self.known_hits.append(rec)
                return False
        self.violations.append(rec)
        if self.stop_on_violation:
            raise StopRun()
        return True

    def check(self, cond, oracle, sig, step, detail):
        self.oracle_checks += 1
        if not cond:
            self.violation(oracle, sig, step, detail() if callable(detail) else detail)
        return cond

    def live(self, pred=None):
        """[(step, value)] of results that are live objects, in step order."""
        out = []
        for i in sorted(self.pool):
            st, v = self.pool[i]
            if st == "ok" and (pred is None or pred(v)):
                out.append((i, v))
        return out

    # ------------------------------------------------------------------ interrupt sweep
    def run_sweep(self, op):
        """F7 placed densely: before the op is executed normally, every line position k = 1, 2, ...
        of THIS call is tried in a forked grandchild of the current state (interrupt at k, then the
        op's probe ops with their oracles).  The parent's own state is not touched."""
        from .proc import run_in_child

        rows = []
        for k in range(1, 400):
            res = run_in_child(self._sweep_child, (op, k), timeout=20.0)
            if not res["fired"]:
                break
            self.fired("F7.interrupt_sweep_point")
            self.oracle_checks += res["oracle_checks"]
            rows.append([k, res["where"], res["digest"], res["answers"]])
            for h in res["known_hits"]:
                if h["known"] not in [x["known"] for x in self.known_hits]:
                    self.known_hits.append(h)
            if res["violations"]:
                v = res["violations"][0]
                sig = dict(v["sig"], interrupted=op["k"][:40])
                self.violation(v["oracle"], sig, op["i"], "[after KeyboardInterrupt at line event %d (%s) of %s] %s" % (k, res["where"], op["k"], v["detail"]))
                break
        self.count("sweeps")
        self.user.setdefault("sweeps", {})[op["i"]] = rows
        return rows

    def _sweep_child(self, op, k):
        self.in_sweep = True
        n0 = len(self.violations)
        c0 = self.oracle_checks
        h0 = len(self.known_hits)
        answers = []
        fired = False
        where = None
        try:
            op2 = {a: b for a, b in op.items() if a not in ("sweep", "probes")}
            op2["intr"] = k
            op2["f"] = "F7.interrupt"
            self.execute(op2)
            fired = self.interrupter.fired
            where = "%s:%s" % (self.interrupter.where[1], self.interrupter.where[2]) if self.interrupter.where else None
            if fired:
                for n, probe in enumerate(op.get("probes", [])):
                    pp = dict(probe)
                    pp["i"] = 900000 + n
                    self.execute(pp)
                    answers.append(self.log[-1][3:5])
        except StopRun:
            pass
        dg = None
        if fired and self.snap_fn is not None:
            try:
                dg = self.snap_fn()
            except Exception as e:
                dg = "snapshot_raised:" + type(e).__name__
        return {"fired": fired, "where": where, "violations": self.violations[n0:], "answers": answers, "digest": dg, "oracle_checks": self.oracle_checks - c0, "known_hits": self.known_hits[h0:]}

    # ------------------------------------------------------------------ one step
    def execute(self, op):
        sweep_rows = None
        if op.get("sweep") and not self.in_sweep:
            try:
                sweep_rows = self.run_sweep(op)
            except StopRun:
                # the op belongs to the recorded history although it never ran in this process
                self.ops.append(op)
                self.log.append([op["i"], op["k"], op.get("f"), "sweep_violation", None])
                raise
        i = op["i"]
        self.step_no = i
        codec = Codec(self.pool)
        self.last_args = None
        try:
            thunk, self.last_target, self.last_args, self.last_kw = call_op(codec, op)
        except SkipOp:
            self.ops.append(op)
            self.log.append([i, op["k"], op.get("f"), "skip", None])
            self.count("skipped")
            return ("skip", None)
        for m in self.monitors:
            m.before(self, op)
        self.peer_fired = False
        PEER["sim"] = self
        self.peer_calls_before = PEER["calls"]
        PEER["armed"] = op.get("peer")  # F2: the n-th peer invocation inside this call raises
        try:
            if op.get("intr"):
                val = self.interrupter.run(op["intr"], thunk)
            else:
                val = thunk()
            out = ("ok", val)
        except KeyboardInterrupt:
            if not self.interrupter.fired:
                raise
            out = ("intr", None)
        except Exception as e:  # the library's answer, whatever it is
            out = ("exc", e)
        PEER["armed"] = None
        if op.get("intr"):
            if self.interrupter.fired:
                self.intr_fired.add(i)
                self.fired("F7.interrupt")
                w = self.interrupter.where
                self.count("intr@%s:%s" % (w[0], w[1]))
            else:
                self.count("F7.configured_not_fired")
        if self.peer_fired:
            self.fired("F2.peer_exception")
            self.tainted.add(i)
            self.peer_steps.add(i)
            for a in op.get("a", []) + [op["t"]]:
                if isinstance(a, dict) and "ref" in a:
                    self.tainted.add(a["ref"])
        if (op.get("f") or "").startswith("F1.") and out[0] == "exc":
            self.fired(op["f"])  # a call the library had to refuse, and did
        self.pool[i] = out
        self.ops.append(op)
        if out[0] == "ok" and op["k"].startswith("reg."):
            # accepted registrations are part of the world: a successor process re-applies them
            self.user.setdefault("dyn_regs", []).append(op)
        if out[0] == "ok":
            try:
                ofp = F.fp(out[1])
            except Exception as e:  # a fingerprint getter raised: report as part of the outcome
                ofp = ["fp_error", type(e).__name__]
        elif out[0] == "exc":
            ofp = F.exc_fp(out[1])
        else:
            ofp = None
        self.log.append([i, op["k"], op.get("f"), out[0], ofp])
        if sweep_rows and op.get("sweep") == "retry":
            # read-only op: whatever line the interrupt hit, the same call issued again must answer
            # what the undisturbed call answers
            for k, where, _dg, answers in sweep_rows:
                self.oracle_checks += 1
                if answers and list(answers[0]) != [out[0], ofp]:
                    self.violation(
                        self.prop + ".retry_after_interrupt",
                        {"op": op["k"][:48]},
                        i,
                        "after KeyboardInterrupt at line event %d (%s) of %s the same call answers %r, undisturbed it answers %r" % (k, where, op["k"], answers[0], [out[0], ofp]),
                    )
                    break
        self.count("op:" + op["k"])
        self.count("st:" + out[0])
        try:
            if not self.peer_fired:  # after a peer fault the call has no result to hold against the request
                for spec in op.get("x", ()):
                    self.oracles[spec["o"]](self, op, spec, out)
            for m in self.monitors:
                m.after(self, op, out)
        finally:
            self.last_args = None
            self.last_target = None
        return out

    def finish(self):
        for m in self.monitors:
            m.finish(self)

    # ------------------------------------------------------------------ result
    def result(self):
        return {
            "ops": self.ops,
            "log": self.log,
            "violations": self.violations,
            "known_hits": self.known_hits,
            "stats": self.stats,
            "faults_fired": self.faults_fired,
            "oracle_checks": self.oracle_checks,
            "tainted": sorted(self.tainted),
            "peer_fired": sorted(self.peer_steps),
            "digest": digest([self.ops, self.log, [v["oracle"] for v in self.violations]]),
            "cfg": self.cfg,
            "states": [self.user["state"]] if "state" in self.user else [],
            "user_regsnaps": self.user.get("regsnaps"),
            "sweeps": self.user.get("sweeps"),
            "intr_fired": sorted(self.intr_fired),
        }


def run_history(sim, source, max_steps):
    """source(sim) -> next op dict or None.  Returns when exhausted, capped or on a violation."""
    try:
        n = 0
        while n < max_steps:
            op = source(sim)
            if op is None:
                break
            n += 1
            if op["k"] == "flt.restart":
                # recorded like any other op: a replay of this history restarts at the same point
                sim.ops.append(op)
                sim.log.append([op["i"], op["k"], op.get("f"), "restart", None])
                raise Restart()
            sim.execute(op)
        sim.finish()
    except StopRun:
        pass
    gc.collect()
    return sim


class ListSource:
    """Replay: executes the recorded list; no PRNG involved."""

    def __init__(self, ops, start=0, drop_faults=False):
        """drop_faults: False | True (every op that carries a fault tag) | a set of step numbers (the
        ops whose fault actually took effect in the FULL execution: rejected calls, fired interrupts
        and peer faults, restarts).  With a set, an op whose interrupt / peer fault was configured
        but did not fire is KEPT (without the fault): it completed in FULL and its result, or its
        effect on a mutable object such as a Curve, is part of the history."""
        self.ops = ops
        self.pos = start
        self.drop_faults = drop_faults

    def __call__(self, sim):
        while self.pos < len(self.ops):
            op = self.ops[self.pos]
            self.pos += 1
            if isinstance(self.drop_faults, (set, frozenset)):
                if op["i"] in self.drop_faults:
                    continue
                if op.get("f") or op.get("intr") or op.get("peer") or op.get("sweep"):
                    op = {k: v for k, v in op.items() if k not in ("f", "intr", "peer", "sweep", "probes")}
            elif self.drop_faults and (op.get("f") or op.get("intr")):
                continue
            return op
        return None
