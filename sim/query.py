"""
Closed queries (C15): small expression trees whose leaves are literals, so that the same query can
be evaluated warm (after an arbitrary history) and cold (on a database that has seen nothing but
the registrations) and the two answers compared.

expression := ["S", v, u, c|None] | ["Sc", c] | ["Scu", c, u] | ["A", kind, [v...], u, c|None]
            | ["FA", d, [v...], u] | ["FS", number, [n, d]|None, u, c|None]
            | ["Q", u, c|None, caption|None] | ["Qn", c] | ["Qd", [[c, u, e]...]]
            | ["Sq", quantity-expr, v] | ["Aq", quantity-expr, kind, [v...]]
            | ["bin", op, e1, e2] | ["num", op, e, k, "l"|"r"] | ["pow", e, n]
            | ["m", e, method, [json args]] | ["mk", e, method, {json kwargs}]
            | ["db", method, [json args]] | ["dbl", method, [json args]]  (dbl: list(result))
            | ["db2", method, [json args]] | ["db2l", ...]   (the same on the second database instance)
            | ["twice", e, method, [json args]]   (one object asked the same question twice)
            | ["val", scalar-expr]   (ScalarMinMaxValidator message)
"""
import operator
from collections import OrderedDict

# a second, independent UnitDatabase instance that lives next to the singleton (set by the C15
# profile at world set-up): queries against it must not be influenced by what happens to the other
OTHER = {"db": None}

OPS = {
    "add": operator.add,
    "sub": operator.sub,
    "mul": operator.mul,
    "truediv": operator.truediv,
    "floordiv": operator.floordiv,
    "eq": operator.eq,
    "lt": operator.lt,
    "ge": operator.ge,
}


def evaluate(e):
    import numpy

    import barril.units as u
    from barril.basic.fraction import FractionValue
    from barril.units.unit_database import UnitDatabase

    tag = e[0]
    if tag == "S":
        _, v, unit, c = e
        return u.Scalar(v, unit, c) if c is not None else u.Scalar(v, unit)
    if tag == "Sc":
        return u.Scalar(e[1])
    if tag == "Scu":
        return u.Scalar(e[1], unit=e[2])
    if tag == "A":
        _, kind, vals, unit, c = e
        V = list(vals) if kind == "L" else tuple(vals) if kind == "T" else numpy.array(vals, dtype="float64")
        return u.Array(V, unit, c) if c is not None else u.Array(V, unit)
    if tag == "FA":
        _, d, vals, unit = e
        return u.FixedArray(d, list(vals), unit)
    if tag == "FS":
        _, number, frac, unit, c = e
        fv = FractionValue(number) if frac is None else FractionValue(number, (frac[0], frac[1]))
        return u.FractionScalar(fv, unit, c) if c is not None else u.FractionScalar(fv, unit)
    if tag == "Q":
        _, unit, c, cap = e
        if cap is not None:
            return u.ObtainQuantity(unit, c, cap)
        return u.ObtainQuantity(unit, c) if c is not None else u.ObtainQuantity(unit)
    if tag == "Qn":
        return u.ObtainQuantity(None, e[1])
    if tag == "Qd":
        od = OrderedDict((c, [un, ex]) for c, un, ex in e[1])
        return u.Quantity.CreateDerived(od)
    if tag == "Sq":  # a Scalar built on an explicitly requested (possibly derived) quantity
        return u.Scalar(evaluate(e[1]), e[2])
    if tag == "Aq":
        _, qe, kind, vals = e
        V = list(vals) if kind == "L" else tuple(vals) if kind == "T" else numpy.array(vals, dtype="float64")
        return u.Array(evaluate(qe), V)
    if tag == "bin":
        return OPS[e[1]](evaluate(e[2]), evaluate(e[3]))
    if tag == "num":
        _, op, sub, k, side = e
        x = evaluate(sub)
        return OPS[op](k, x) if side == "l" else OPS[op](x, k)
    if tag == "pow":
        return evaluate(e[1]) ** e[2]
    if tag == "m":
        return getattr(evaluate(e[1]), e[2])(*e[3])
    if tag == "mk":
        return getattr(evaluate(e[1]), e[2])(**e[3])
    if tag == "db":
        return getattr(UnitDatabase.GetSingleton(), e[1])(*[_arg(a) for a in e[2]])
    if tag == "dbl":
        return list(getattr(UnitDatabase.GetSingleton(), e[1])(*e[2]))
    if tag == "twice":
        # one object, the same question twice: [first outcome, second outcome]
        from . import fp as F

        obj = evaluate(e[1])
        outs = []
        for _ in range(2):
            try:
                outs.append(["ok", F.fp(getattr(obj, e[2])(*e[3]))])
            except Exception as ex:
                outs.append(["exc", type(ex).__name__])
        return outs
    if tag == "db2":
        return getattr(OTHER["db"], e[1])(*e[2])
    if tag == "db2l":
        return list(getattr(OTHER["db"], e[1])(*e[2]))
    if tag == "val":
        from barril.units.scalar_validation.scalar_min_max_validator import ScalarMinMaxValidator

        return ScalarMinMaxValidator.CreateScalarCheckErrorMsg(evaluate(e[1]), "prop") is None
    raise ValueError("bad query tag %r" % (tag,))


def _arg(a):
    if isinstance(a, dict) and "box" in a:
        from .ops import SimBox

        return SimBox(a["box"])
    return a


def label(e):
    tag = e[0]
    if tag in ("m", "mk"):
        return "%s.%s" % (label(e[1]), e[2])
    if tag == "twice":
        return "twice.%s.%s" % (label(e[1]), e[2])
    if tag in ("db", "dbl"):
        return "db." + e[1]
    if tag in ("db2", "db2l"):
        return "db2." + e[1]
    if tag == "bin":
        return "bin.%s(%s,%s)" % (e[1], label(e[2]), label(e[3]))
    if tag == "num":
        return "num.%s(%s)" % (e[1], label(e[2]))
    if tag == "pow":
        return "pow(%s)" % label(e[1])
    if tag == "twice":
        # one object, the same question twice: [first outcome, second outcome]
        from . import fp as F

        obj = evaluate(e[1])
        outs = []
        for _ in range(2):
            try:
                outs.append(["ok", F.fp(getattr(obj, e[2])(*e[3]))])
            except Exception as ex:
                outs.append(["exc", type(ex).__name__])
        return outs
    if tag == "db2":
        return getattr(OTHER["db"], e[1])(*e[2])
    if tag == "db2l":
        return list(getattr(OTHER["db"], e[1])(*e[2]))
    if tag == "val":
        return "val(%s)" % label(e[1])
    return tag


def names(e, out=None):
    """All string leaves (unit / category / type names) a query mentions."""
    if out is None:
        out = set()
    if isinstance(e, str):
        out.add(e)
    elif isinstance(e, (list, tuple)):
        for x in e[1:] if (e and isinstance(e[0], str) and e[0] in TAGS) else e:
            names(x, out)
    elif isinstance(e, dict):
        for x in e.values():
            names(x, out)
    return out


TAGS = {"twice", "db2", "db2l", "Sq", "Aq", "S", "Sc", "Scu", "A", "FA", "FS", "Q", "Qn", "Qd", "bin", "num", "pow", "m", "mk", "db", "dbl", "val"}
