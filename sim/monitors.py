"""
Step monitors: invariants evaluated in the run child after every step.

Each monitor belongs to one property; it reports through sim.violation(oracle, signature, ...).
Identity (id()) is only ever compared inside one process.
"""
from . import fp as F


def _barril():
    import barril.units as u
    from barril.curve.curve import Curve

    return u, Curve


def value_objects(sim):
    u, Curve = _barril()
    return sim.live(lambda v: isinstance(v, (u.Scalar, u.Array, u.FractionScalar)))


def quantities_of(v):
    """Quantity objects reachable from a result value."""
    u, Curve = _barril()
    if isinstance(v, u.Quantity):
        return [v]
    if isinstance(v, (u.Scalar, u.Array, u.FractionScalar)):
        try:
            return [v.GetQuantity()]
        except Exception:
            return []
    if isinstance(v, Curve):
        out = []
        for a in (v.GetImage(), v.GetDomain()):
            out.extend(quantities_of(a))
        return out
    if isinstance(v, (list, tuple)) and len(v) <= 8:
        out = []
        for x in v:
            if not isinstance(x, (int, float, str)):
                out.extend(quantities_of(x))
        return out
    return []


class Monitor:
    def before(self, sim, op):
        pass

    def after(self, sim, op, out):
        pass

    def finish(self, sim):
        pass


# ---------------------------------------------------------------------------------- C07


class QSweep(Monitor):
    """C07: every Quantity in the intern table and in the pool is immutable; cache well-formed."""

    def __init__(self, prop="C07", eager_full=True, check_cache_keys=True, single_oracle=None):
        self.prop = prop
        self.single_oracle = single_oracle  # report everything under one oracle id (C05.unchanged)
        self.reg = {}  # id -> [quantity, cheap fp, first step, full fp or None, hash or None]
        self.eager_full = eager_full
        self.check_cache_keys = check_cache_keys

    def _db(self):
        from barril.units.unit_database import UnitDatabase

        return UnitDatabase.GetSingleton()

    def _o(self, name):
        return self.single_oracle or (self.prop + "." + name)

    def _register(self, sim, q, step, visible):
        key = id(q)
        ent = self.reg.get(key)
        if ent is None:
            try:
                cheap = F.qfp(q)
            except AttributeError as e:
                sim.violation(
                    self._o("cache_wellformed"),
                    {"case": "uninitialised_quantity"},
                    step,
                    "quantity reachable with an uninitialised slot: %r" % (e,),
                )
                return
            ent = self.reg[key] = [q, cheap, step, None, None]
            sim.count("quantities_registered")
        if visible and ent[3] is None and self.eager_full:
            ent[3] = F.qfp_full(q)
            ent[4] = hash(q)

    def scan(self, sim, step):
        db = self._db()
        for q in list(db.quantities_cache.values()):
            self._register(sim, q, step, False)
        for i, v in sim.live():
            for q in quantities_of(v):
                self._register(sim, q, step, True)

    def before(self, sim, op):
        if not self.reg:
            self.scan(sim, op["i"])

    def after(self, sim, op, out):
        step = op["i"]
        self.scan(sim, step)
        for key, ent in self.reg.items():
            q, cheap = ent[0], ent[1]
            try:
                now = F.qfp(q)
            except Exception as e:
                now = ["getter_raised", type(e).__name__]
            sim.oracle_checks += 1
            if now != cheap:
                sim.violation(
                    self._o("immutable"),
                    {"field": _first_diff(cheap, now), "after": op["k"].split(".")[0], "fault": op.get("f")},
                    step,
                    "quantity first seen at step %s changed: %r -> %r (after %s)"
                    % (ent[2], cheap, now, op["k"]),
                )
                ent[1] = now
        if self.check_cache_keys:
            self.cache_wellformed(sim, step)

    def cache_wellformed(self, sim, step):
        from barril.units.unit_database import FixUnitIfIsLegacy

        db = self._db()
        for key, q in list(db.quantities_cache.items()):
            sim.oracle_checks += 1
            try:
                cheap = F.qfp(q)
            except AttributeError:
                continue  # reported by _register
            ok = True
            why = ""
            if isinstance(key, tuple) and len(key) == 3 and not isinstance(key[0], tuple) and (
                key[1] is None or isinstance(key[1], str)
            ):
                category, unit, caption = key
                if (caption or "") != (cheap[3] or ""):
                    ok, why = False, "caption"
                if isinstance(category, str) and cheap[0] != category:
                    ok, why = False, "category"
                if isinstance(unit, str):
                    fixed = FixUnitIfIsLegacy(unit)[1]
                    if cheap[2] not in (unit, fixed):
                        ok, why = False, "unit"
            elif isinstance(key, tuple):
                items = [k for k in key if isinstance(k, tuple)]
                caps = [k for k in key if isinstance(k, str)]
                try:
                    if not all(
                        isinstance(k, str) or k is None or (len(k) == 2 and isinstance(k[0], str) and isinstance(k[1], (tuple, list)) and len(k[1]) == 2 and isinstance(k[1][0], str))
                        for k in key
                    ):
                        raise TypeError("unknown key shape")
                    want = [[c, ue[0], ue[1]] for c, ue in items]
                except (TypeError, ValueError, IndexError):
                    # a key of a shape this monitor does not know: how the table is keyed is the
                    # implementation's business, only keys it can read are held against their entries
                    sim.count("cache_key_shape_unknown")
                    continue
                if want != cheap[5]:
                    ok, why = False, "composing_map"
                if (caps[0] if caps else "") != (cheap[3] or ""):
                    ok, why = False, "caption"
            if not ok:
                sim.violation(
                    self._o("cache_wellformed"),
                    {"case": "key_disagrees", "field": why},
                    step,
                    "cache key %r holds quantity %r" % (key, cheap),
                )

    def finish(self, sim):
        step = sim.step_no
        # full getter fingerprints again + hash stability
        for key, ent in self.reg.items():
            q = ent[0]
            if ent[3] is not None:
                sim.oracle_checks += 1
                try:
                    now = F.qfp_full(q)
                    h = hash(q)
                except Exception as e:
                    now, h = ["getter_raised", type(e).__name__], None
                if now != ent[3]:
                    sim.violation(
                        self._o("immutable"),
                        {"field": "getter:" + str(_first_diff(ent[3], now)), "after": "end", "fault": None},
                        step,
                        "getter fingerprint changed: %r -> %r" % (ent[3], now),
                    )
                elif h != ent[4]:
                    sim.violation(
                        self._o("immutable"),
                        {"field": "hash", "after": "end", "fault": None},
                        step,
                        "hash of %r changed" % (ent[1],),
                    )
        # equality classes: same (map, caption) <=> == and equal hash
        groups = {}
        for key, ent in self.reg.items():
            g = (repr(ent[1][5]), ent[1][3] or "")
            groups.setdefault(g, []).append(ent[0])
        reps = []
        for g, qs in groups.items():
            first = qs[0]
            reps.append((g, first))
            for other in qs[1:]:
                sim.oracle_checks += 1
                if not (first == other and other == first and hash(first) == hash(other)) or first != other:
                    sim.violation(
                        self._o("intern_eq_hash"),
                        {"case": "equal_request_unequal_object"},
                        step,
                        "quantities with the same composing map/caption %r are not ==/hash-equal" % (g,),
                    )
        reps.sort(key=lambda t: t[0])
        for a in range(len(reps)):
            for b in range(a + 1, len(reps) if len(reps) <= 80 else min(len(reps), a + 12)):
                sim.oracle_checks += 1
                qa, qb = reps[a][1], reps[b][1]
                if qa == qb or not (qa != qb):
                    sim.violation(
                        self._o("intern_eq_hash"),
                        {"case": "different_request_equal_object"},
                        step,
                        "quantities %r and %r compare equal" % (reps[a][0], reps[b][0]),
                    )
        sim.stats["quantities_final"] = len(self.reg)


def _first_diff(a, b):
    names = ["category", "quantity_type", "unit", "caption", "is_derived", "composing_map"]
    if isinstance(a, list) and isinstance(b, list) and len(a) == len(b):
        for i, (x, y) in enumerate(zip(a, b)):
            if x != y:
                return names[i] if i < len(names) else "getter%d" % i
    return "shape"


# ---------------------------------------------------------------------------------- C13


def vsnap(v):
    """Snapshot of a value object: value(s), unit, category, dimension, container identity+contents."""
    u, Curve = _barril()
    q = v.GetQuantity()
    base = [type(v).__name__, id(q), F.qfp(q), v.GetUnit(), v.GetCategory()]
    if isinstance(v, u.Scalar):
        return base + [F.fp(v.GetValue())]
    if isinstance(v, u.Array):
        c = v.GetValues()
        extra = [id(c), type(c).__name__, F.fp(c)]
        if isinstance(v, u.FixedArray):
            extra.append(v.dimension)
        return base + extra
    if isinstance(v, u.FractionScalar):
        fv = v.GetValue()
        fr = fv.GetFraction()
        return base + [id(fv), id(fr), F.fp(fv)]
    return base


VSNAP_FIELDS = ["class", "quantity_identity", "quantity", "unit", "category"]


class VSweep(Monitor):
    """C13: no operation changes any pool member (snapshot before, compare after)."""

    def __init__(self, prop="C13", oracle=None):
        self.prop = prop
        self.oracle = oracle or (prop + ".unchanged")
        self.snap = {}

    def before(self, sim, op):
        self.snap = {}
        for i, v in value_objects(sim):
            try:
                self.snap[i] = vsnap(v)
            except Exception as e:
                self.snap[i] = ["snapshot_raised", type(e).__name__]

    def after(self, sim, op, out):
        if out[0] == "ok" and self.prop == "C13" and _must_be_fresh(sim, op):
            c = _container(out[1])
            if c is not None:
                sim.oracle_checks += 1
                for i, v in sim.live():
                    if i == op["i"]:
                        continue
                    if _container(v) is c:
                        sim.violation(
                            "C13.result_new",
                            {"op": op["k"], "class": type(out[1]).__name__, "container": type(c).__name__, "shared_with": type(v).__name__},
                            op["i"],
                            "the result of %s carries the very container (%s) that the result of step %s holds" % (op["k"], type(c).__name__, i),
                        )
                        break
        for i, v in value_objects(sim):
            if i not in self.snap:
                continue
            sim.oracle_checks += 1
            try:
                now = vsnap(v)
            except Exception as e:
                now = ["snapshot_raised", type(e).__name__]
            if now != self.snap[i]:
                was = self.snap[i]
                field = "value"
                for n, (x, y) in enumerate(zip(was, now)):
                    if x != y:
                        field = VSNAP_FIELDS[n] if n < len(VSNAP_FIELDS) else "value"
                        break
                role = "operand" if _refers(op, i) else "bystander"
                sim.violation(
                    self.oracle,
                    {
                        "class": was[0] if was else "?",
                        "field": field,
                        "role": role,
                        "op": op["k"],
                        "status": out[0],
                    },
                    op["i"],
                    "pool member %s changed during %s: %r -> %r" % (i, op["k"], was, now),
                )


def _container(v):
    """The mutable container a result carries (or is): list / ndarray / FractionValue, else None."""
    import numpy

    from barril.basic.fraction import FractionValue

    u, Curve = _barril()
    try:
        if isinstance(v, u.Array):
            v = v.GetValues()
        elif isinstance(v, u.FractionScalar):
            v = v.GetValue()
    except Exception:
        return None
    if isinstance(v, (list, numpy.ndarray, FractionValue)):
        return v
    return None


def _must_be_fresh(sim, op):
    """True iff the statement's "results are new objects" obliges this step to hand out a container
    nobody else holds: arithmetic, ChangingIndex, and conversions to ANOTHER unit (a request for the
    object's own unit may legitimately answer with the stored container itself)."""
    from . import model as M

    k = op["k"]
    if k.startswith(("ar.obj.", "ar.num_", "ar.pow", "fixed.ar.", "fixed.ChangingIndex")):
        return True
    unit = None
    if k in ("cv.GetValues", "cv.GetValue"):
        unit = sim.last_args[0] if sim.last_args else None
    elif k.startswith(("cv.CreateCopy.unit", "fixed.CreateCopy.unit")):
        unit = (sim.last_kw or {}).get("unit")
    if unit is None:
        return False
    tgt = sim.last_target
    try:
        own = tgt.GetUnit()
    except Exception:
        return False
    if M.current_spelling(unit) == M.current_spelling(own):
        return False
    # two different symbols whose conversions are both the identity function (the base unit and a
    # unit registered as its synonym) hand the container through untouched: exempt as well
    try:
        import numpy

        from barril.units.unit_database import UnitDatabase

        db = UnitDatabase.GetSingleton()
        qt = tgt.GetQuantityType()
        probe = numpy.array([1.0])
        a = db.GetInfo(qt, own).tobase(probe)
        b = db.GetInfo(qt, unit).frombase(a)
        if b is probe:
            return False
    except Exception:
        return False
    return True


class ValidityWatch(Monitor):
    """C13: validation does not change its operand - in particular not the verdict the operand
    gives about itself.  The same validity question asked of the same (unchanged) pool member
    answers the same every time, unless the call was cut short or met a transient peer fault."""

    def __init__(self, prop="C13"):
        self.prop = prop
        self.seen = {}

    def after(self, sim, op, out):
        if op["k"] not in ("val.IsValid", "val.CheckValidity") or out[0] not in ("ok", "exc"):
            return
        t = op.get("t")
        if not (isinstance(t, dict) and "ref" in t) or sim.peer_fired or t["ref"] in sim.tainted or op.get("peer"):
            return
        key = (t["ref"], op["k"], sim.epoch)
        now = sim.log[-1][3:5]
        was = self.seen.get(key)
        sim.oracle_checks += 1
        if was is not None and was != now:
            sim.violation(
                self.prop + ".unchanged",
                {"class": type(sim.last_target).__name__, "field": "validity_verdict", "role": "operand", "op": op["k"], "status": out[0]},
                op["i"],
                "%s of the pool member of step %s answered %r before and %r now" % (op["k"], t["ref"], was, now),
            )
        self.seen[key] = now


def _refers(op, i):
    for a in list(op.get("a", [])) + list(op.get("kw", {}).values()) + [op["t"]]:
        if isinstance(a, dict):
            if a.get("ref") == i:
                return True
            for sub in ("L", "T"):
                if sub in a and any(isinstance(x, dict) and x.get("ref") == i for x in a[sub]):
                    return True
    return False


# ---------------------------------------------------------------------------------- registry


def registry_fast(db):
    """Cheap structural pass over the whole registry (public attributes of UnitDatabase)."""
    cats = db.categories_to_quantity_types
    acc = [len(db.quantity_types), len(db.unit_to_unit_info), len(cats)]
    n = 0
    for infos in db.quantity_types.values():
        n += len(infos)
    acc.append(n)
    h = 0
    for name, ci in cats.items():
        vu = ci.valid_units
        h = hash(
            (
                h,
                name,
                ci.quantity_type,
                len(vu) if vu is not None else -1,
                vu[-1] if vu else None,
                ci.default_unit,
                ci.default_value,
                ci.min_value,
                ci.max_value,
                ci.is_min_exclusive,
                ci.is_max_exclusive,
                ci.caption,
            )
        )
    acc.append(h)
    return acc


def registry_focus(db, types, cats, units):
    """Public-getter snapshot restricted to the names a run uses."""
    out = []
    for t in types:
        try:
            out.append(["T", t, list(db.GetUnits(t)), list(db.GetUnitNames(t)), db.GetBaseUnit(t)])
        except Exception as e:
            out.append(["T", t, "raises", type(e).__name__])
    for c in cats:
        try:
            out.append(
                [
                    "C",
                    c,
                    F.fp(db.GetCategoryInfo(c)),
                    list(db.GetValidUnits(c)),
                    db.GetDefaultUnit(c),
                    F.fp(db.GetDefaultValue(c)),
                ]
            )
        except Exception as e:
            out.append(["C", c, "raises", type(e).__name__])
    for un in units:
        out.append(["U", un, db.GetQuantityType(un), _safe(lambda: db.GetDefaultCategory(un))])
    return out


def _safe(f):
    try:
        return f()
    except Exception as e:
        return ["raises", type(e).__name__]


PROBES = (1.0, 7.5)


def registry_full(db, probes=True):
    """Canonical snapshot of everything the database reports, through public getters."""
    # every getter is guarded: a getter that raises is part of what the database reports (and is
    # compared as such), never a crash of the harness
    out = {"types": [], "cats": [], "units": []}
    for t in db.GetQuantityTypes():
        out["types"].append([t, _safe(lambda: list(db.GetUnits(t))), _safe(lambda: list(db.GetUnitNames(t))), _safe(lambda: db.GetBaseUnit(t))])
    for c in db.IterCategories():
        out["cats"].append(
            [
                c,
                _safe(lambda: F.fp(db.GetCategoryInfo(c))),
                _safe(lambda: list(db.GetValidUnits(c))),
                _safe(lambda: db.GetDefaultUnit(c)),
                _safe(lambda: F.fp(db.GetDefaultValue(c))),
            ]
        )
    try:
        all_units = list(db.GetUnits())
    except Exception as e:
        all_units = []
        out["units"].append(["GetUnits", "raises", type(e).__name__])
    for un in all_units:
        row = [un, _safe(lambda: db.GetQuantityType(un)), _safe(lambda: db.GetDefaultCategory(un))]
        if probes:
            try:
                info = db.GetInfo(db.GetQuantityType(un), un)
            except Exception as e:
                info = None
                row.append(["raises", type(e).__name__])
            if info is not None:
                for x in PROBES:
                    row.append(_safe(lambda: F.fp(info.tobase(x))))
                    row.append(_safe(lambda: F.fp(info.frombase(x))))
        out["units"].append(row)
    return out


class RSnap(Monitor):
    """Registry unchanged around steps for which `applies(op)` is true (C05 / C15 purity)."""

    def __init__(self, oracle, applies=None, focus=None, full_at_end=True, memo_rule=True):
        self.oracle = oracle
        self.applies = applies or (lambda op: True)
        self.focus = focus  # (types, cats, units) or None -> full snapshot each step
        self.full_at_end = full_at_end
        self.memo_rule = memo_rule
        self.start_full = None
        self.pre = None

    def _db(self):
        from barril.units.unit_database import UnitDatabase

        return UnitDatabase.GetSingleton()

    def _snap(self, db):
        if self.focus is None:
            return [registry_full(db, probes=False)]
        return [registry_fast(db), registry_focus(db, *self.focus)]

    def before(self, sim, op):
        db = self._db()
        if self.start_full is None and self.full_at_end:
            self.start_full = registry_full(db)
        if self.applies(op):
            self.pre = self._snap(db)
            self.pre_memo = dict(db._category_unit_valid) if self.memo_rule else None
        else:
            self.pre = None

    def after(self, sim, op, out):
        if self.pre is None:
            return
        db = self._db()
        sim.oracle_checks += 1
        now = self._snap(db)
        if now != self.pre:
            sim.violation(
                self.oracle,
                {"what": "registry", "op": op["k"], "status": out[0], "fault": op.get("f")},
                op["i"],
                "registry changed during %s (%s): %s" % (op["k"], out[0], _diff_text(self.pre, now)),
            )
        if self.pre_memo is not None:
            memo = db._category_unit_valid
            for k, v in self.pre_memo.items():
                if memo.get(k, None) is not v:
                    sim.violation(
                        self.oracle,
                        {"what": "memo", "op": op["k"], "status": out[0], "fault": op.get("f")},
                        op["i"],
                        "validity memo entry %r flipped/removed during %s" % (k, op["k"]),
                    )
                    break
        if self.start_full is not None:
            self.dirty = True

    def finish(self, sim):
        if self.start_full is not None and getattr(self, "check_end", True):
            db = self._db()
            sim.oracle_checks += 1
            end = registry_full(db)
            if end != self.start_full and not sim.user.get("registrations"):
                sim.violation(
                    self.oracle,
                    {"what": "registry_end", "op": "*", "status": "-", "fault": None},
                    sim.step_no,
                    "registry differs between start and end of a history without registrations: %s"
                    % _diff_text(self.start_full, end),
                )


def _diff_text(a, b, path=""):
    if type(a) != type(b):
        return "%s: %r != %r" % (path, a, b)
    if isinstance(a, dict):
        for k in a:
            if a[k] != b.get(k):
                return _diff_text(a[k], b.get(k), path + "/" + str(k))
    if isinstance(a, list):
        if len(a) != len(b):
            return "%s: length %d != %d (%r ... %r)" % (path, len(a), len(b), a[-1:], b[-1:])
        for n, (x, y) in enumerate(zip(a, b)):
            if x != y:
                return _diff_text(x, y, path + "/" + str(n))
    return "%s: %r != %r" % (path, a, b)


# ---------------------------------------------------------------------------------- C11


class SInv(Monitor):
    """C11: every FixedArray has len(values) == dimension >= 2; every Curve len(image)==len(domain)."""

    def __init__(self, prop="C11"):
        self.prop = prop

    def after(self, sim, op, out):
        u, Curve = _barril()
        for i, v in sim.live(lambda v: isinstance(v, (u.FixedArray, Curve))):
            sim.oracle_checks += 1
            if isinstance(v, u.FixedArray):
                try:
                    n = len(v.GetValues())
                    d = v.dimension
                    ok = isinstance(d, int) and d >= 2 and n == d
                except Exception as e:
                    ok, n, d = False, "raises", type(e).__name__
                if not ok:
                    sim.violation(
                        self.prop + ".size",
                        {"class": "FixedArray", "route": sim.ops[_index_of(sim, i)]["k"] if i == op["i"] else "later:" + op["k"]},
                        op["i"],
                        "FixedArray from step %s has len(values)=%r dimension=%r" % (i, n, d),
                    )
            else:
                try:
                    a, b = len(v.GetImage().GetValues()), len(v.GetDomain().GetValues())
                    ok = a == b
                except Exception as e:
                    ok, a, b = False, "raises", type(e).__name__
                if not ok:
                    sim.violation(
                        self.prop + ".size",
                        {"class": "Curve", "route": op["k"]},
                        op["i"],
                        "Curve from step %s has len(image)=%r len(domain)=%r" % (i, a, b),
                    )


def _index_of(sim, step):
    for n in range(len(sim.ops) - 1, -1, -1):
        if sim.ops[n]["i"] == step:
            return n
    return -1


class CurveWatch(Monitor):
    """Captures the pre-state of a Curve setter step for the C11.curve_atomic oracle."""

    def before(self, sim, op):
        sim.user.pop("_curve_pre", None)
        if not any(s.get("o") == "curve_set" for s in op.get("x", ())):
            return
        u, Curve = _barril()
        if isinstance(sim.last_target, Curve):
            cv, new = sim.last_target, sim.last_args[0]
        elif sim.last_args and isinstance(sim.last_args[0], Curve):
            cv, new = sim.last_args[0], sim.last_args[2]
        else:
            return
        sim.user["_curve_pre"] = (cv, cv.GetImage(), cv.GetDomain(), new)

    def after(self, sim, op, out):
        sim.user.pop("_curve_pre", None)
